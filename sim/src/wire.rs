//! Engine W — the simulated wire / storage: every value crosses it as text or JSON, either
//! untouched (C16, C17) or damaged (C09, C18).

use crate::core::{ClockCfg, Installed, SeqHooks, guarded};
use crate::genh::{Gen, Profile, gen_history};
use crate::prng::Rng;
use crate::seq::hex128;
use crate::spec::*;
use pricelevel::verif::atomic::{AtomicU64, AtomicUsize};
use pricelevel::verif::exports::{PriceLevelSnapshotPackage, PriceLevelStatistics, TransactionList};
use pricelevel::verif::muted;
use pricelevel::{
    MatchResult, OrderId, OrderQueue, OrderType, OrderUpdate, PegReferenceType, PriceLevel,
    PriceLevelData, PriceLevelSnapshot, Side, TimeInForce, Transaction, UuidGenerator,
};
use serde::{Deserialize, Serialize};
use std::str::FromStr;
use std::sync::Arc;
use uuid::Uuid;

#[derive(Clone, Debug, PartialEq, Serialize, Deserialize)]
pub struct TxSpec {
    #[serde(with = "hex128")]
    pub txid: u128,
    pub taker: IdS,
    pub maker: IdS,
    pub price: u64,
    pub qty: u64,
    pub buy: bool,
    pub ts: u64,
}

impl TxSpec {
    pub fn to_lib(&self) -> Transaction {
        Transaction {
            transaction_id: Uuid::from_u128(self.txid),
            taker_order_id: self.taker.to_lib(),
            maker_order_id: self.maker.to_lib(),
            price: self.price,
            quantity: self.qty,
            taker_side: side_of(self.buy),
            timestamp: self.ts,
        }
    }
    pub fn of(t: &Transaction) -> TxSpec {
        TxSpec {
            txid: t.transaction_id.as_u128(),
            taker: IdS::of(t.taker_order_id),
            maker: IdS::of(t.maker_order_id),
            price: t.price,
            qty: t.quantity,
            buy: matches!(t.taker_side, Side::Buy),
            ts: t.timestamp,
        }
    }
}

#[derive(Clone, Debug, PartialEq, Serialize, Deserialize)]
pub struct MatchSpec {
    pub order_id: IdS,
    pub txs: Vec<TxSpec>,
    pub remaining: u64,
    pub complete: bool,
    pub filled: Vec<IdS>,
}

impl MatchSpec {
    pub fn to_lib(&self) -> MatchResult {
        let mut m = MatchResult::new(self.order_id.to_lib(), 0);
        m.transactions = TransactionList::from_vec(self.txs.iter().map(|t| t.to_lib()).collect());
        m.remaining_quantity = self.remaining;
        m.is_complete = self.complete;
        m.filled_order_ids = self.filled.iter().map(|i| i.to_lib()).collect();
        m
    }
    pub fn of(m: &MatchResult) -> MatchSpec {
        MatchSpec {
            order_id: IdS::of(m.order_id),
            txs: m.transactions.as_vec().iter().map(TxSpec::of).collect(),
            remaining: m.remaining_quantity,
            complete: m.is_complete,
            filled: m.filled_order_ids.iter().map(|i| IdS::of(*i)).collect(),
        }
    }
}

#[derive(Clone, Debug, PartialEq, Serialize, Deserialize)]
pub struct SnapSpec {
    pub price: u64,
    pub vis: u64,
    pub hid: u64,
    pub count: usize,
    pub orders: Vec<OrderSpec>,
}

impl SnapSpec {
    pub fn to_lib(&self) -> PriceLevelSnapshot {
        PriceLevelSnapshot {
            price: self.price,
            visible_quantity: self.vis,
            hidden_quantity: self.hid,
            order_count: self.count,
            orders: self.orders.iter().map(|o| Arc::new(o.to_lib())).collect(),
        }
    }
    pub fn of(s: &PriceLevelSnapshot) -> SnapSpec {
        SnapSpec {
            price: s.price,
            vis: s.visible_quantity,
            hid: s.hidden_quantity,
            count: s.order_count,
            orders: s.orders.iter().map(|a| OrderSpec::of(a)).collect(),
        }
    }
    pub fn derived(price: u64, orders: Vec<OrderSpec>) -> SnapSpec {
        SnapSpec {
            price,
            vis: orders.iter().map(|o| o.vis).fold(0u64, |a, b| a.saturating_add(b)),
            hid: orders.iter().map(|o| o.hid).fold(0u64, |a, b| a.saturating_add(b)),
            count: orders.len(),
            orders,
        }
    }
}

/// A value of one of the codec types, in harness-side form.
#[derive(Clone, Debug, PartialEq, Serialize, Deserialize)]
pub enum Val {
    Order(OrderSpec),
    Update(UpdSpec),
    Id(IdS),
    Side(bool),
    Tif(Tif),
    Peg(u8),
    Tx(TxSpec),
    TxList(Vec<TxSpec>),
    Match(MatchSpec),
    Level { price: u64, orders: Vec<OrderSpec> },
    /// level whose quantity sums may exceed 64 bits: only "decoded reports what the original
    /// reported" is required, not that the figures are the (unrepresentable) sums
    BigLevel { price: u64, orders: Vec<OrderSpec> },
    Queue(Vec<OrderSpec>),
    /// text form carries price + aggregates only
    Snapshot(SnapSpec),
    /// package built by the library from this snapshot (aggregates derived, checksum real)
    Package(SnapSpec),
    Stats([u64; 8]),
    Generator {
        #[serde(with = "hex128")]
        ns: u128,
        calls: u64,
    },
}

impl Val {
    pub fn type_name(&self) -> &'static str {
        match self {
            Val::Order(_) => "order",
            Val::Update(_) => "update",
            Val::Id(_) => "order_id",
            Val::Side(_) => "side",
            Val::Tif(_) => "time_in_force",
            Val::Peg(_) => "peg_reference",
            Val::Tx(_) => "transaction",
            Val::TxList(_) => "transaction_list",
            Val::Match(_) => "match_result",
            Val::Level { .. } => "level",
            Val::BigLevel { .. } => "level(sums beyond 64 bits)",
            Val::Queue(_) => "queue",
            Val::Snapshot(_) => "snapshot",
            Val::Package(_) => "snapshot_package",
            Val::Stats(_) => "statistics",
            Val::Generator { .. } => "uuid_generator",
        }
    }
}

fn build_level(price: u64, orders: &[OrderSpec]) -> PriceLevel {
    let l = PriceLevel::new(price);
    for o in orders {
        l.add_order(o.to_lib());
    }
    l
}

fn build_stats(s: &[u64; 8]) -> PriceLevelStatistics {
    PriceLevelStatistics {
        orders_added: AtomicUsize::new(s[0] as usize),
        orders_removed: AtomicUsize::new(s[1] as usize),
        orders_executed: AtomicUsize::new(s[2] as usize),
        quantity_executed: AtomicU64::new(s[3]),
        value_executed: AtomicU64::new(s[4]),
        last_execution_time: AtomicU64::new(s[5]),
        first_arrival_time: AtomicU64::new(s[6]),
        sum_waiting_time: AtomicU64::new(s[7]),
    }
}

fn stats_of(s: &PriceLevelStatistics) -> [u64; 8] {
    use std::sync::atomic::Ordering::Relaxed;
    muted(|| {
        [
            s.orders_added.load(Relaxed) as u64,
            s.orders_removed.load(Relaxed) as u64,
            s.orders_executed.load(Relaxed) as u64,
            s.quantity_executed.load(Relaxed),
            s.value_executed.load(Relaxed),
            s.last_execution_time.load(Relaxed),
            s.first_arrival_time.load(Relaxed),
            s.sum_waiting_time.load(Relaxed),
        ]
    })
}

fn upd_of(u: &OrderUpdate) -> UpdSpec {
    match *u {
        OrderUpdate::UpdatePrice {
            order_id,
            new_price,
        } => UpdSpec {
            kind: UpdKind::Price,
            id: IdS::of(order_id),
            price: new_price,
            qty: 0,
            buy: false,
        },
        OrderUpdate::UpdateQuantity {
            order_id,
            new_quantity,
        } => UpdSpec {
            kind: UpdKind::Qty,
            id: IdS::of(order_id),
            price: 0,
            qty: new_quantity,
            buy: false,
        },
        OrderUpdate::UpdatePriceAndQuantity {
            order_id,
            new_price,
            new_quantity,
        } => UpdSpec {
            kind: UpdKind::PriceQty,
            id: IdS::of(order_id),
            price: new_price,
            qty: new_quantity,
            buy: false,
        },
        OrderUpdate::Cancel { order_id } => UpdSpec {
            kind: UpdKind::Cancel,
            id: IdS::of(order_id),
            price: 0,
            qty: 0,
            buy: false,
        },
        OrderUpdate::Replace {
            order_id,
            price,
            quantity,
            side,
        } => UpdSpec {
            kind: UpdKind::Replace,
            id: IdS::of(order_id),
            price,
            qty: quantity,
            buy: matches!(side, Side::Buy),
        },
    }
}

fn norm_upd(u: &UpdSpec) -> UpdSpec {
    // fields not carried by the variant are normalised away
    let mut n = *u;
    match u.kind {
        UpdKind::Price => {
            n.qty = 0;
            n.buy = false
        }
        UpdKind::Qty => {
            n.price = 0;
            n.buy = false
        }
        UpdKind::PriceQty => n.buy = false,
        UpdKind::Cancel => {
            n.price = 0;
            n.qty = 0;
            n.buy = false
        }
        UpdKind::Replace => {}
    }
    n
}

fn peg_index(p: PegReferenceType) -> u8 {
    match p {
        PegReferenceType::BestBid => 0,
        PegReferenceType::BestAsk => 1,
        PegReferenceType::MidPrice => 2,
        PegReferenceType::LastTrade => 3,
    }
}

fn sorted(mut v: Vec<OrderSpec>) -> Vec<OrderSpec> {
    v.sort_by_key(|o| (o.id, o.ts, o.vis, o.hid));
    v
}

fn level_content(l: &PriceLevel) -> (u64, Vec<OrderSpec>, u64, u64, usize) {
    muted(|| {
        let orders: Vec<OrderSpec> = l.iter_orders().iter().map(|a| OrderSpec::of(a)).collect();
        (
            l.price(),
            sorted(orders),
            l.visible_quantity(),
            l.hidden_quantity(),
            l.order_count(),
        )
    })
}

fn derived_ok(c: &(u64, Vec<OrderSpec>, u64, u64, usize)) -> bool {
    let v: u128 = c.1.iter().map(|o| o.vis as u128).sum();
    let h: u128 = c.1.iter().map(|o| o.hid as u128).sum();
    c.2 as u128 == v && c.3 as u128 == h && c.4 == c.1.len()
}

#[derive(Clone, Copy, Debug, PartialEq, Eq)]
pub enum Codec {
    Text,
    Json,
}

/// Encode with the library, decode with the library, compare in harness-side form.
/// `Ok(encoded)` if the round trip gives an equal value; `Err(description)` otherwise;
/// `Ok` with `None` when the type has no such codec.
pub fn round_trip(v: &Val, codec: Codec) -> Result<Option<String>, String> {
    let r = guarded(|| round_trip_inner(v, codec));
    match r {
        Ok(x) => x,
        Err(f) => Err(format!(
            "{} {:?} round trip of {:?} {}",
            v.type_name(),
            codec,
            v,
            f.brief()
        )),
    }
}

fn jerr<T>(r: Result<T, serde_json::Error>, what: &str, enc: &str) -> Result<T, String> {
    r.map_err(|e| format!("{what}: library JSON {enc} fails: {e}"))
}

fn round_trip_inner(v: &Val, codec: Codec) -> Result<Option<String>, String> {
    let txt = codec == Codec::Text;
    macro_rules! rt {
        ($lib:expr, $ty:ty, $back:expr, $orig:expr) => {{
            let lib = $lib;
            let enc = if txt {
                lib.to_string()
            } else {
                jerr(serde_json::to_string(&lib), v.type_name(), "serialization")?
            };
            let dec: $ty = if txt {
                <$ty>::from_str(&enc)
                    .map_err(|e| format!("{}: {:?} does not parse back: {e}", v.type_name(), enc))?
            } else {
                serde_json::from_str(&enc)
                    .map_err(|e| format!("{}: {:?} does not deserialize: {e}", v.type_name(), enc))?
            };
            let got = $back(&dec);
            if got != $orig {
                return Err(format!(
                    "{} via {:?}: sent {:?}, encoded {:?}, got back {:?}",
                    v.type_name(),
                    codec,
                    $orig,
                    enc,
                    got
                ));
            }
            Ok(Some(enc))
        }};
    }
    match v {
        Val::Order(o) => rt!(o.to_lib(), OrderType<()>, |d: &OrderType<()>| OrderSpec::of(d), *o),
        Val::Update(u) => rt!(u.to_lib(), OrderUpdate, upd_of, norm_upd(u)),
        Val::Id(i) => rt!(i.to_lib(), OrderId, |d: &OrderId| IdS::of(*d), *i),
        Val::Side(b) => rt!(side_of(*b), Side, |d: &Side| matches!(d, Side::Buy), *b),
        Val::Tif(t) => rt!(t.to_lib(), TimeInForce, |d: &TimeInForce| Tif::of(*d), *t),
        Val::Peg(p) => rt!(peg_of(*p), PegReferenceType, |d: &PegReferenceType| peg_index(*d), *p % 4),
        Val::Tx(t) => rt!(t.to_lib(), Transaction, TxSpec::of, t.clone()),
        Val::TxList(l) => rt!(
            TransactionList::from_vec(l.iter().map(|t| t.to_lib()).collect()),
            TransactionList,
            |d: &TransactionList| d.as_vec().iter().map(TxSpec::of).collect::<Vec<_>>(),
            l.clone()
        ),
        Val::Match(m) => rt!(m.to_lib(), MatchResult, MatchSpec::of, m.clone()),
        Val::Level { price, orders } => {
            let lvl = build_level(*price, orders);
            let orig = level_content(&lvl);
            let enc = if txt {
                lvl.to_string()
            } else {
                jerr(serde_json::to_string(&lvl), "level", "serialization")?
            };
            let dec: PriceLevel = if txt {
                PriceLevel::from_str(&enc)
                    .map_err(|e| format!("level: {enc:?} does not parse back: {e}"))?
            } else {
                serde_json::from_str(&enc)
                    .map_err(|e| format!("level: {enc:?} does not deserialize: {e}"))?
            };
            let got = level_content(&dec);
            if got != orig || !derived_ok(&got) {
                return Err(format!(
                    "level via {codec:?}: sent {orig:?}, encoded {enc:?}, got back {got:?}"
                ));
            }
            Ok(Some(enc))
        }
        Val::BigLevel { price, orders } => {
            let lvl = build_level(*price, orders);
            let orig = level_content(&lvl);
            let enc = if txt {
                lvl.to_string()
            } else {
                jerr(serde_json::to_string(&lvl), "level", "serialization")?
            };
            let dec: PriceLevel = if txt {
                PriceLevel::from_str(&enc)
                    .map_err(|e| format!("level: {enc:?} does not parse back: {e}"))?
            } else {
                serde_json::from_str(&enc)
                    .map_err(|e| format!("level: {enc:?} does not deserialize: {e}"))?
            };
            let got = level_content(&dec);
            if got != orig {
                return Err(format!(
                    "level via {codec:?}: sent {orig:?}, encoded {enc:?}, got back {got:?}"
                ));
            }
            Ok(Some(enc))
        }
        Val::Queue(orders) => {
            let q = OrderQueue::new();
            for o in orders {
                q.push(Arc::new(o.to_lib()));
            }
            let orig = sorted(orders.clone());
            let enc = if txt {
                q.to_string()
            } else {
                jerr(serde_json::to_string(&q), "queue", "serialization")?
            };
            let dec: OrderQueue = if txt {
                OrderQueue::from_str(&enc)
                    .map_err(|e| format!("queue: {enc:?} does not parse back: {e}"))?
            } else {
                serde_json::from_str(&enc)
                    .map_err(|e| format!("queue: {enc:?} does not deserialize: {e}"))?
            };
            let got = sorted(muted(|| dec.to_vec().iter().map(|a| OrderSpec::of(a)).collect()));
            if got != orig || muted(|| dec.len()) != orig.len() {
                return Err(format!(
                    "queue via {codec:?}: sent {orig:?}, encoded {enc:?}, got back {got:?}"
                ));
            }
            Ok(Some(enc))
        }
        Val::Snapshot(s) => {
            if txt {
                // summary: price and aggregates only
                let lib = s.to_lib();
                let enc = lib.to_string();
                let dec = PriceLevelSnapshot::from_str(&enc)
                    .map_err(|e| format!("snapshot summary: {enc:?} does not parse back: {e}"))?;
                let got = (dec.price, dec.visible_quantity, dec.hidden_quantity, dec.order_count);
                let want = (s.price, s.vis, s.hid, s.count);
                if got != want {
                    return Err(format!(
                        "snapshot summary: sent {want:?}, encoded {enc:?}, got back {got:?}"
                    ));
                }
                Ok(Some(enc))
            } else {
                rt!(s.to_lib(), PriceLevelSnapshot, SnapSpec::of, s.clone())
            }
        }
        Val::Package(s) => {
            if txt {
                return Ok(None);
            }
            let pkg = PriceLevelSnapshotPackage::new(s.to_lib())
                .map_err(|e| format!("package: cannot build: {e}"))?;
            let enc = pkg.to_json().map_err(|e| format!("package: to_json fails: {e}"))?;
            let dec = PriceLevelSnapshotPackage::from_json(&enc)
                .map_err(|e| format!("package: {enc:?} does not deserialize: {e}"))?;
            if dec.version != pkg.version
                || dec.checksum != pkg.checksum
                || SnapSpec::of(&dec.snapshot) != SnapSpec::of(&pkg.snapshot)
            {
                return Err(format!("package: encoded {enc:?}, got back a different package"));
            }
            dec.validate()
                .map_err(|e| format!("package: no longer validates after the trip ({e}): {enc:?}"))?;
            let want = SnapSpec::derived(s.price, s.orders.clone());
            if SnapSpec::of(&dec.snapshot) != want {
                return Err(format!(
                    "package: content {:?} is not the snapshot's orders with derived aggregates {:?}",
                    SnapSpec::of(&dec.snapshot),
                    want
                ));
            }
            Ok(Some(enc))
        }
        Val::Stats(s) => rt!(build_stats(s), PriceLevelStatistics, stats_of, *s),
        Val::Generator { ns, calls } => {
            if txt {
                return Ok(None);
            }
            let g = UuidGenerator::new(Uuid::from_u128(*ns));
            for _ in 0..*calls {
                let _ = g.next();
            }
            let enc = jerr(serde_json::to_string(&g), "generator", "serialization")?;
            let dec: UuidGenerator = serde_json::from_str(&enc)
                .map_err(|e| format!("generator: {enc:?} does not deserialize: {e}"))?;
            let (a, b) = (g.next(), dec.next());
            if a != b {
                return Err(format!(
                    "generator: after the trip the next id is {b}, the original issues {a}"
                ));
            }
            Ok(Some(enc))
        }
    }
}

// ---------------------------------------------------------------------------
// value generation

pub fn boundary_u64(r: &mut Rng) -> u64 {
    *r.pick(&[
        0u64,
        1,
        2,
        9,
        10,
        79,
        80,
        81,
        (1 << 32) - 1,
        1 << 32,
        (1 << 53) - 1,
        (1 << 53) + 1,
        i64::MAX as u64,
        (i64::MAX as u64) + 1,
        u64::MAX - 1,
        u64::MAX,
    ])
}

pub fn any_u64(r: &mut Rng) -> u64 {
    match r.below(3) {
        0 => boundary_u64(r),
        1 => r.below(1000),
        _ => r.next(),
    }
}

pub fn any_id(r: &mut Rng) -> IdS {
    match r.below(6) {
        0 => IdS {
            ulid: false,
            v: 0,
        },
        1 => IdS {
            ulid: false,
            v: u128::MAX,
        },
        2 => IdS { ulid: true, v: 0 },
        3 => IdS {
            ulid: true,
            v: u128::MAX,
        },
        _ => IdS {
            ulid: r.chance(1, 2),
            v: r.u128(),
        },
    }
}

pub fn any_order(r: &mut Rng) -> OrderSpec {
    let kind = *r.pick(&ALL_KINDS);
    let has_hidden = matches!(kind, Kind::Iceberg | Kind::Reserve);
    OrderSpec {
        kind,
        id: any_id(r),
        price: any_u64(r),
        vis: any_u64(r),
        hid: if has_hidden { any_u64(r) } else { 0 },
        buy: r.chance(1, 2),
        ts: any_u64(r),
        tif: any_tif(r),
        p1: if matches!(kind, Kind::TrailingStop | Kind::Reserve) {
            any_u64(r)
        } else {
            0
        },
        p2: if kind == Kind::TrailingStop || kind == Kind::Reserve {
            any_u64(r)
        } else {
            0
        },
        p2_some: kind == Kind::Reserve && r.chance(2, 3),
        off: if kind == Kind::Pegged {
            *r.pick(&[0i64, 1, -1, i64::MAX, i64::MIN, 12345, -987654321])
        } else {
            0
        },
        peg: if kind == Kind::Pegged {
            r.below(4) as u8
        } else {
            0
        },
        auto: kind == Kind::Reserve && r.chance(1, 2),
    }
    .normalised()
}

impl OrderSpec {
    /// Reserve without amount: `p2` is not carried.
    pub fn normalised(mut self) -> OrderSpec {
        if self.kind == Kind::Reserve && !self.p2_some {
            self.p2 = 0;
        }
        self
    }
}

pub fn any_tif(r: &mut Rng) -> Tif {
    match r.below(7) {
        0 => Tif::Gtc,
        1 => Tif::Ioc,
        2 => Tif::Fok,
        3 => Tif::Day,
        4 => Tif::Gtd(boundary_u64(r)),
        5 => Tif::Gtd(r.next()),
        _ => Tif::Gtd(r.below(2_000_000_000)),
    }
}

pub fn any_tx(r: &mut Rng) -> TxSpec {
    TxSpec {
        txid: match r.below(4) {
            0 => 0,
            1 => u128::MAX,
            _ => r.u128(),
        },
        taker: any_id(r),
        maker: any_id(r),
        price: any_u64(r),
        qty: any_u64(r),
        buy: r.chance(1, 2),
        ts: any_u64(r),
    }
}

pub fn any_update(r: &mut Rng) -> UpdSpec {
    norm_upd(&UpdSpec {
        kind: *r.pick(&[
            UpdKind::Price,
            UpdKind::Qty,
            UpdKind::PriceQty,
            UpdKind::Cancel,
            UpdKind::Replace,
        ]),
        id: any_id(r),
        price: any_u64(r),
        qty: any_u64(r),
        buy: r.chance(1, 2),
    })
}

/// Orders for a level / queue / snapshot: unique ids.
pub fn any_orders(r: &mut Rng, max: u64) -> Vec<OrderSpec> {
    let n = match r.below(4) {
        0 => 0,
        1 => 1,
        _ => r.below(max + 1),
    };
    let mut v: Vec<OrderSpec> = vec![];
    for i in 0..n {
        let mut o = any_order(r);
        o.id.v = (o.id.v & !0xff) | i as u128;
        if v.iter().any(|x| x.id == o.id) {
            continue;
        }
        v.push(o);
    }
    v
}

/// Values that cross the wire in one run: a boundary pool draw per type plus everything a
/// simulated history produces (listing orders, match results, statistics, level, snapshot).
pub fn gen_values(seed: u64) -> Vec<Val> {
    let mut r = Rng::stream(seed, 2);
    let mut vals: Vec<Val> = vec![];
    for _ in 0..3 {
        vals.push(Val::Order(any_order(&mut r)));
    }
    vals.push(Val::Update(any_update(&mut r)));
    vals.push(Val::Id(any_id(&mut r)));
    vals.push(Val::Side(r.chance(1, 2)));
    vals.push(Val::Tif(any_tif(&mut r)));
    vals.push(Val::Peg(r.below(4) as u8));
    vals.push(Val::Tx(any_tx(&mut r)));
    let n = r.below(4);
    vals.push(Val::TxList((0..n).map(|_| any_tx(&mut r)).collect()));
    let n = r.below(4);
    let nf = r.below(3);
    vals.push(Val::Match(MatchSpec {
        order_id: any_id(&mut r),
        txs: (0..n).map(|_| any_tx(&mut r)).collect(),
        remaining: any_u64(&mut r),
        complete: r.chance(1, 2),
        filled: (0..nf).map(|_| any_id(&mut r)).collect(),
    }));
    // levels keep the stated precondition: aggregate sums fit in 64 bits
    let mut orders = any_orders(&mut r, 5);
    let mut room: u64 = u64::MAX / 2;
    for o in orders.iter_mut() {
        o.vis = o.vis.min(room / 2);
        room -= o.vis;
        o.hid = o.hid.min(room / 2);
        room -= o.hid;
    }
    vals.push(Val::Level {
        price: any_u64(&mut r),
        orders: orders.clone(),
    });
    if r.chance(1, 3) {
        vals.push(Val::BigLevel {
            price: any_u64(&mut r),
            orders: any_orders(&mut r, 3),
        });
    }
    vals.push(Val::Queue(any_orders(&mut r, 5)));
    let so = any_orders(&mut r, 4);
    vals.push(Val::Snapshot(SnapSpec {
        price: any_u64(&mut r),
        vis: any_u64(&mut r),
        hid: any_u64(&mut r),
        count: any_u64(&mut r) as usize,
        orders: so,
    }));
    vals.push(Val::Package(SnapSpec {
        price: any_u64(&mut r),
        vis: any_u64(&mut r),
        hid: any_u64(&mut r),
        count: r.below(9) as usize,
        orders: orders,
    }));
    let mut st = [0u64; 8];
    for x in st.iter_mut() {
        *x = any_u64(&mut r);
    }
    vals.push(Val::Stats(st));
    vals.push(Val::Generator {
        ns: r.u128(),
        calls: r.below(5),
    });
    // values produced by a simulated run
    vals.extend(values_from_run(seed));
    vals
}

/// Run a generated history on the real level and collect what it produces.
pub fn values_from_run(seed: u64) -> Vec<Val> {
    let prof = Profile {
        restores: false,
        reads: false,
        max_ops: 14,
        ..Profile::default()
    };
    let h = gen_history(seed ^ 0x77, &prof);
    let hooks = SeqHooks::new(h.knobs.clock.clone(), h.knobs.hash_seed, h.knobs.shards);
    let _i = Installed::new(hooks.clone());
    let mut vals = vec![];
    let r = guarded(|| {
        let level = PriceLevel::new(h.knobs.price);
        let generator = UuidGenerator::new(Uuid::from_u128(h.knobs.namespace));
        let mut out: Vec<Val> = vec![];
        let mut resting: Vec<IdS> = vec![];
        for op in &h.ops {
            hooks.begin_op(200_000);
            match op {
                Op::Add(o) => {
                    if !resting.contains(&o.id) {
                        level.add_order(o.to_lib());
                        resting.push(o.id);
                    }
                }
                Op::Match { qty, taker } => {
                    let m = level.match_order(*qty, taker.to_lib(), &generator);
                    if out.len() < 24 {
                        out.push(Val::Match(MatchSpec::of(&m)));
                        if let Some(t) = m.transactions.as_vec().first() {
                            out.push(Val::Tx(TxSpec::of(t)));
                        }
                    }
                }
                Op::Upd(u) => {
                    let _ = level.update_order(u.to_lib());
                }
                _ => {}
            }
            hooks.end_op();
            resting = muted(|| level.iter_orders().iter().map(|a| IdS::of(a.id())).collect());
        }
        let listing: Vec<OrderSpec> =
            muted(|| level.iter_orders().iter().map(|a| OrderSpec::of(a)).collect());
        for o in listing.iter().take(4) {
            out.push(Val::Order(*o));
        }
        out.push(Val::Level {
            price: h.knobs.price,
            orders: listing.clone(),
        });
        out.push(Val::Package(SnapSpec::derived(h.knobs.price, listing.clone())));
        out.push(Val::Snapshot(SnapSpec::of(&muted(|| level.snapshot()))));
        out.push(Val::Stats(stats_of(&level.stats())));
        out
    });
    if let Ok(v) = r {
        vals = v;
    }
    vals
}

#[allow(dead_code)]
pub fn unused(_: Gen, _: PriceLevelData, _: ClockCfg) {}

// ---------------------------------------------------------------------------
// fault enumeration on encoded text (char level, results stay valid UTF-8)

pub const SUBST_CHARS: [char; 7] = ['7', 'x', ';', '=', 'é', '€', '𝄞'];
pub const INSERT_CHARS: [char; 5] = ['0', ',', ']', '"', 'é'];

#[derive(Clone, Debug, PartialEq, Serialize, Deserialize)]
pub struct Fault {
    pub kind: String,
    pub at: usize,
    #[serde(default)]
    pub ch: Option<char>,
    #[serde(default)]
    pub len: usize,
}

/// Enumerate every single-position fault of `s`; `f(kind, at, mutated)`.
pub fn enumerate_faults(s: &str, subst: &[char], insert: &[char], f: &mut dyn FnMut(&Fault, &str)) {
    let chars: Vec<char> = s.chars().collect();
    let n = chars.len();
    let mut buf = String::with_capacity(s.len() + 8);
    // truncation at every point (torn write / short read), incl. empty
    for k in 0..n {
        buf.clear();
        buf.extend(chars[..k].iter());
        f(
            &Fault {
                kind: "truncate".into(),
                at: k,
                ch: None,
                len: 0,
            },
            &buf,
        );
    }
    for k in 0..n {
        // deletion
        buf.clear();
        buf.extend(chars[..k].iter());
        buf.extend(chars[k + 1..].iter());
        f(
            &Fault {
                kind: "delete".into(),
                at: k,
                ch: None,
                len: 0,
            },
            &buf,
        );
        // substitution
        for c in subst {
            if *c == chars[k] {
                continue;
            }
            buf.clear();
            buf.extend(chars[..k].iter());
            buf.push(*c);
            buf.extend(chars[k + 1..].iter());
            f(
                &Fault {
                    kind: "subst".into(),
                    at: k,
                    ch: Some(*c),
                    len: 0,
                },
                &buf,
            );
        }
        // digit off-by-one (a flipped low bit of a stored digit)
        if chars[k].is_ascii_digit() {
            let d = chars[k] as u8 - b'0';
            let nd = (b'0' + (d ^ 1)) as char;
            buf.clear();
            buf.extend(chars[..k].iter());
            buf.push(nd);
            buf.extend(chars[k + 1..].iter());
            f(
                &Fault {
                    kind: "bitflip".into(),
                    at: k,
                    ch: Some(nd),
                    len: 0,
                },
                &buf,
            );
        }
        // swap with the next character
        if k + 1 < n && chars[k] != chars[k + 1] {
            buf.clear();
            buf.extend(chars[..k].iter());
            buf.push(chars[k + 1]);
            buf.push(chars[k]);
            buf.extend(chars[k + 2..].iter());
            f(
                &Fault {
                    kind: "swap".into(),
                    at: k,
                    ch: None,
                    len: 0,
                },
                &buf,
            );
        }
    }
    for k in 0..=n {
        for c in insert {
            buf.clear();
            buf.extend(chars[..k].iter());
            buf.push(*c);
            buf.extend(chars[k..].iter());
            f(
                &Fault {
                    kind: "insert".into(),
                    at: k,
                    ch: Some(*c),
                    len: 0,
                },
                &buf,
            );
        }
    }
    // letter case flipped (a bit flip in an ASCII letter)
    for k in 0..n {
        let c = chars[k];
        if c.is_ascii_alphabetic() {
            let fc = if c.is_ascii_lowercase() {
                c.to_ascii_uppercase()
            } else {
                c.to_ascii_lowercase()
            };
            buf.clear();
            buf.extend(chars[..k].iter());
            buf.push(fc);
            buf.extend(chars[k + 1..].iter());
            f(
                &Fault {
                    kind: "caseflip".into(),
                    at: k,
                    ch: Some(fc),
                    len: 0,
                },
                &buf,
            );
        }
    }
    // an element of a bracketed list delivered twice, the copy with one digit changed
    // (a duplicated record that was partly overwritten)
    {
        let mut depth_sq = 0i32;
        let mut depth_br = 0i32;
        let mut in_str = false;
        let mut start: Option<usize> = None;
        let mut elems: Vec<(usize, usize)> = vec![];
        for k in 0..n {
            let c = chars[k];
            if c == '"' && (k == 0 || chars[k - 1] != '\\') {
                in_str = !in_str;
            }
            if in_str {
                continue;
            }
            match c {
                '[' => {
                    depth_sq += 1;
                    if depth_sq == 1 {
                        start = Some(k + 1);
                    }
                }
                ']' => {
                    if depth_sq == 1 {
                        if let Some(s0) = start {
                            if k > s0 {
                                elems.push((s0, k));
                            }
                        }
                        start = None;
                    }
                    depth_sq -= 1;
                }
                '{' => depth_br += 1,
                '}' => depth_br -= 1,
                ',' if depth_sq == 1 && depth_br == 0 => {
                    if let Some(s0) = start {
                        elems.push((s0, k));
                    }
                    start = Some(k + 1);
                }
                _ => {}
            }
        }
        for (a, b) in elems.into_iter().take(12) {
            let elem: Vec<char> = chars[a..b].to_vec();
            // the copy, with its last digit changed (if it has one)
            let mut copy = elem.clone();
            if let Some(p) = copy.iter().rposition(|c| c.is_ascii_digit()) {
                let d = copy[p] as u8 - b'0';
                copy[p] = (b'0' + (d + 1) % 10) as char;
            }
            for variant in [&elem, &copy] {
                buf.clear();
                buf.extend(chars[..b].iter());
                buf.push(',');
                buf.extend(variant.iter());
                buf.extend(chars[b..].iter());
                f(
                    &Fault {
                        kind: "dup_element".into(),
                        at: a,
                        ch: None,
                        len: b - a,
                    },
                    &buf,
                );
            }
        }
    }
    // duplication of a run (a replayed block)
    for k in (0..n).step_by(3) {
        for len in [1usize, 7, 40] {
            if k + len <= n {
                buf.clear();
                buf.extend(chars[..k + len].iter());
                buf.extend(chars[k..].iter());
                f(
                    &Fault {
                        kind: "dup".into(),
                        at: k,
                        ch: None,
                        len,
                    },
                    &buf,
                );
            }
        }
    }
}

pub fn apply_fault(s: &str, f: &Fault) -> String {
    let chars: Vec<char> = s.chars().collect();
    let n = chars.len();
    let k = f.at.min(n);
    let mut b = String::new();
    match f.kind.as_str() {
        "truncate" => b.extend(chars[..k].iter()),
        "delete" => {
            b.extend(chars[..k].iter());
            if k < n {
                b.extend(chars[k + 1..].iter());
            }
        }
        "subst" | "bitflip" | "caseflip" => {
            b.extend(chars[..k].iter());
            if let Some(c) = f.ch {
                b.push(c);
            }
            if k < n {
                b.extend(chars[k + 1..].iter());
            }
        }
        "swap" => {
            b.extend(chars[..k].iter());
            if k + 1 < n {
                b.push(chars[k + 1]);
                b.push(chars[k]);
                b.extend(chars[k + 2..].iter());
            } else {
                b.extend(chars[k..].iter());
            }
        }
        "insert" => {
            b.extend(chars[..k].iter());
            if let Some(c) = f.ch {
                b.push(c);
            }
            b.extend(chars[k..].iter());
        }
        "dup" => {
            let e = (k + f.len).min(n);
            b.extend(chars[..e].iter());
            b.extend(chars[k..].iter());
        }
        _ => b.push_str(s),
    }
    b
}

// ---------------------------------------------------------------------------
// parser entry points (C18)

pub type ParserFn = fn(&str) -> bool;

macro_rules! text_parser {
    ($ty:ty) => {
        |s: &str| <$ty>::from_str(s).is_ok()
    };
}
macro_rules! json_parser {
    ($ty:ty) => {
        |s: &str| serde_json::from_str::<$ty>(s).is_ok()
    };
}

pub fn parsers() -> Vec<(&'static str, ParserFn)> {
    vec![
        ("text:order", text_parser!(OrderType<()>)),
        ("text:update", text_parser!(OrderUpdate)),
        ("text:order_id", text_parser!(OrderId)),
        ("text:side", text_parser!(Side)),
        ("text:time_in_force", text_parser!(TimeInForce)),
        ("text:peg_reference", text_parser!(PegReferenceType)),
        ("text:transaction", text_parser!(Transaction)),
        ("text:transaction_list", text_parser!(TransactionList)),
        ("text:match_result", text_parser!(MatchResult)),
        ("text:level", text_parser!(PriceLevel)),
        ("text:queue", text_parser!(OrderQueue)),
        ("text:snapshot", text_parser!(PriceLevelSnapshot)),
        ("text:statistics", text_parser!(PriceLevelStatistics)),
        ("json:order", json_parser!(OrderType<()>)),
        ("json:update", json_parser!(OrderUpdate)),
        ("json:order_id", json_parser!(OrderId)),
        ("json:side", json_parser!(Side)),
        ("json:time_in_force", json_parser!(TimeInForce)),
        ("json:peg_reference", json_parser!(PegReferenceType)),
        ("json:transaction", json_parser!(Transaction)),
        ("json:transaction_list", json_parser!(TransactionList)),
        ("json:match_result", json_parser!(MatchResult)),
        ("json:level", json_parser!(PriceLevel)),
        ("json:level_data", json_parser!(PriceLevelData)),
        ("json:queue", json_parser!(OrderQueue)),
        ("json:snapshot", json_parser!(PriceLevelSnapshot)),
        ("json:snapshot_package", json_parser!(PriceLevelSnapshotPackage)),
        ("json:statistics", json_parser!(PriceLevelStatistics)),
        ("json:uuid_generator", json_parser!(UuidGenerator)),
        ("json:from_snapshot_json", |s: &str| {
            PriceLevel::from_snapshot_json(s).is_ok()
        }),
        ("json:package_from_json", |s: &str| {
            PriceLevelSnapshotPackage::from_json(s).is_ok()
        }),
    ]
}

pub fn parser_by_name(name: &str) -> Option<ParserFn> {
    parsers().into_iter().find(|p| p.0 == name).map(|p| p.1)
}

/// The parser names that accept the encodings of this value type.
pub fn parsers_for(v: &Val, codec: Codec) -> Vec<&'static str> {
    let t = codec == Codec::Text;
    match (v, t) {
        (Val::Order(_), true) => vec!["text:order"],
        (Val::Order(_), false) => vec!["json:order"],
        (Val::Update(_), true) => vec!["text:update"],
        (Val::Update(_), false) => vec!["json:update"],
        (Val::Id(_), true) => vec!["text:order_id"],
        (Val::Id(_), false) => vec!["json:order_id"],
        (Val::Side(_), true) => vec!["text:side"],
        (Val::Side(_), false) => vec!["json:side"],
        (Val::Tif(_), true) => vec!["text:time_in_force"],
        (Val::Tif(_), false) => vec!["json:time_in_force"],
        (Val::Peg(_), true) => vec!["text:peg_reference"],
        (Val::Peg(_), false) => vec!["json:peg_reference"],
        (Val::Tx(_), true) => vec!["text:transaction"],
        (Val::Tx(_), false) => vec!["json:transaction"],
        (Val::TxList(_), true) => vec!["text:transaction_list"],
        (Val::TxList(_), false) => vec!["json:transaction_list"],
        (Val::Match(_), true) => vec!["text:match_result"],
        (Val::Match(_), false) => vec!["json:match_result"],
        (Val::Level { .. }, true) | (Val::BigLevel { .. }, true) => vec!["text:level"],
        (Val::Level { .. }, false) | (Val::BigLevel { .. }, false) => {
            vec!["json:level", "json:level_data"]
        }
        (Val::Queue(_), true) => vec!["text:queue"],
        (Val::Queue(_), false) => vec!["json:queue"],
        (Val::Snapshot(_), true) => vec!["text:snapshot"],
        (Val::Snapshot(_), false) => vec!["json:snapshot"],
        (Val::Package(_), true) => vec![],
        (Val::Package(_), false) => vec![
            "json:snapshot_package",
            "json:from_snapshot_json",
            "json:package_from_json",
        ],
        (Val::Stats(_), true) => vec!["text:statistics"],
        (Val::Stats(_), false) => vec!["json:statistics"],
        (Val::Generator { .. }, true) => vec![],
        (Val::Generator { .. }, false) => vec!["json:uuid_generator"],
    }
}

/// Fixed adversarial corpus fed to every parser.
pub fn corpus() -> Vec<String> {
    let mut v: Vec<String> = vec![
        "".into(),
        " ".into(),
        ":".into(),
        "::".into(),
        ";".into(),
        "=".into(),
        "a=b=c".into(),
        "[".into(),
        "]".into(),
        "[]".into(),
        "{".into(),
        "{}".into(),
        "null".into(),
        "\"\"".into(),
        "0".into(),
        "-1".into(),
        "18446744073709551616".into(),
        "99999999999999999999999999999999999999".into(),
        "é".into(),
        "€€€".into(),
        "𝄞".into(),
        "\u{0}".into(),
        "Standard:".into(),
        "Standard:id=é".into(),
        "Standard:id=;price=;quantity=;side=;timestamp=;time_in_force=".into(),
        "MatchResult:".into(),
        "MatchResult:order_id=é".into(),
        "MatchResult:order_id=x;remaining_quantity=é;is_complete=€".into(),
        "MatchResult:order_id=1;remaining_quantity=1;is_complete=true;transactions=Transactions:[é];filled_order_ids=[é]".into(),
        "MatchResult:transactions=Transactions:[".into(),
        "MatchResult:filled_order_ids=[".into(),
        "MatchResult:filled_order_ids=[[[[".into(),
        "MatchResult:filled_order_ids=]".into(),
        "Transactions:[".into(),
        "Transactions:]".into(),
        "Transactions:[]]".into(),
        "Transactions:[é]".into(),
        "PriceLevel:".into(),
        "PriceLevel:orders=[".into(),
        "PriceLevel:orders=[é".into(),
        "PriceLevel:price=1;orders=[Standard:id=é]".into(),
        "PriceLevel:price=1;orders=[)))]".into(),
        "OrderQueue:orders=[".into(),
        "OrderQueue:orders=[]".into(),
        "OrderQueue:orders=[é]".into(),
        "OrderQueue:orders=]".into(),
        "PriceLevelSnapshot:price=é".into(),
        "PriceLevelStatistics:orders_added=é".into(),
        "GTD-".into(),
        "GTD-é".into(),
        "GTD--1".into(),
        "gtd-ß".into(),
        "GTD-1-2".into(),
        "ß".into(),
        "ﬁ".into(),
        "{\"version\":1,\"snapshot\":{},\"checksum\":\"\"}".into(),
        "{\"version\":1,\"snapshot\":null,\"checksum\":null}".into(),
        "{\"GTD\":-1}".into(),
        "{\"GTD\":18446744073709551616}".into(),
    ];
    // bracket / separator confusions around every list-carrying format
    for head in ["PriceLevel:price=100", "OrderQueue:orders=", "MatchResult:order_id=1;remaining_quantity=1;is_complete=true;transactions=Transactions:", "Transactions:"] {
        for tail in ["];orders=[", "]orders=[", "[];orders=[", "];orders=[]", "]];orders=[[", ";orders=[];orders=[", "];filled_order_ids=[", "[;", "[,", "[,]", "[]]", "[[]", "],[", "=[", "=]", ";;", ";=;", "==", ":]:["] {
            v.push(format!("{head}{tail}"));
        }
    }
    v.push("[".repeat(10_000));
    v.push(format!("MatchResult:filled_order_ids={}", "[".repeat(5_000)));
    v.push(format!("PriceLevel:price=1;orders=[{}", "(".repeat(5_000)));
    v.push("{\"a\":".repeat(2_000));
    v.push("9".repeat(400));
    v.push(format!("Standard:id={}", "é".repeat(300)));
    v
}
