//! Seeded search driver: runs a check's cases on all cores, classifies what it finds
//! against the committed known-findings file, minimises, writes replay + evidence.

use crate::prng::mix;
use crate::seq::{Probes, Violation};
use serde_json::{Value, json};
use std::collections::{BTreeMap, BTreeSet, HashSet};
use std::path::{Path, PathBuf};
use std::sync::Mutex;
use std::sync::atomic::{AtomicBool, AtomicU64, Ordering};
use std::time::Instant;

pub const DEFAULT_SEED: u64 = 20261004;

/// Set for the thorough tier: generators then also draw larger cases (more threads / operations,
/// longer histories) for a share of the runs.
pub static DEEP: AtomicBool = AtomicBool::new(false);

#[derive(Clone, Copy, PartialEq, Eq, Debug)]
pub enum Tier {
    Quick,
    Thorough,
}

impl Tier {
    pub fn name(self) -> &'static str {
        match self {
            Tier::Quick => "quick",
            Tier::Thorough => "thorough",
        }
    }
}

#[derive(Default, Debug)]
pub struct RunOut {
    /// violations of *this* check's property only
    pub violations: Vec<Violation>,
    pub digest: u64,
    pub nontrivial: bool,
    pub probes: Probes,
    pub steps: u64,
    pub clock_ms: u64,
    pub faults: BTreeMap<&'static str, u64>,
    pub strategy: Option<&'static str>,
    /// additional evaluations performed inside this run (e.g. faulted restores of one package)
    pub inner_evals: u64,
    /// additional distinct non-trivial inner cases (digests)
    pub inner_digests: Vec<u64>,
    pub state_digests: Vec<u64>,
}

pub struct MinStats {
    pub attempts: u64,
    pub from_size: usize,
    pub to_size: usize,
}

pub trait Check: Sync {
    fn prop(&self) -> &'static str;
    fn engine(&self) -> &'static str;
    fn level(&self) -> &'static str {
        "exploration"
    }
    fn runs(&self, tier: Tier) -> u64;
    /// generate the case of this seed and run it
    fn run_seed(&self, seed: u64) -> RunOut;
    /// the case of this seed, written out (replay file body)
    fn case_of_seed(&self, seed: u64) -> Value;
    /// run an explicit case
    fn run_case(&self, case: &Value) -> Result<RunOut, String>;
    /// shrink a failing case while a violation with signature `sig` persists
    fn minimise(&self, case: &Value, sig: &str) -> (Value, MinStats);
    fn rule(&self) -> String;
    fn assumptions(&self) -> Vec<String>;
    fn real_vs_stub(&self) -> Value {
        json!({
            "real": ["every function under /repo/src (feature verif)", "dashmap", "crossbeam SegQueue", "std atomics", "serde_json", "sha2", "uuid", "ulid"],
            "substituted_under_feature": ["std atomics -> step()+same std atomic", "DashMap -> step()+real dashmap with seeded hasher and fixed shard count", "SegQueue -> step()+real SegQueue", "SystemTime::now -> simulated clock"],
            "stubs": []
        })
    }
    /// deterministic extra work done once per invocation (e.g. an enumerated grid); returns
    /// (evaluations, distinct non-trivial, violations, description)
    fn once(&self, _tier: Tier) -> Option<(u64, u64, Vec<(Value, Violation)>, String)> {
        None
    }
    /// exhaustive flag for the evidence (only meaningful with `once`)
    fn exhaustive(&self) -> bool {
        false
    }
    /// run the search in a child process so that an abort (allocation failure, stack overflow)
    /// inside the code under test becomes a verdict instead of killing the check
    fn isolate(&self) -> bool {
        false
    }
}

pub fn verif_dir() -> PathBuf {
    std::env::var("VERIF_DIR")
        .map(PathBuf::from)
        .unwrap_or_else(|_| PathBuf::from("/verif"))
}

pub fn workers() -> usize {
    std::env::var("VERIF_WORKERS")
        .ok()
        .and_then(|s| s.parse().ok())
        .unwrap_or_else(|| {
            std::thread::available_parallelism()
                .map(|n| n.get())
                .unwrap_or(4)
        })
        .max(1)
}

#[derive(Debug, Clone)]
pub struct Known {
    pub property: String,
    pub key: String,
    pub status: String,
    pub what_fails: String,
    pub witness: Option<String>,
}

pub fn load_known() -> Vec<Known> {
    let p = verif_dir().join("known_findings.json");
    let Ok(s) = std::fs::read_to_string(&p) else {
        return vec![];
    };
    let v: Value = match serde_json::from_str(&s) {
        Ok(v) => v,
        Err(e) => {
            eprintln!("harness error: cannot parse {}: {e}", p.display());
            std::process::exit(2);
        }
    };
    let mut out = vec![];
    for e in v.as_array().cloned().unwrap_or_default() {
        out.push(Known {
            property: e["property"].as_str().unwrap_or("").to_string(),
            key: e["key"].as_str().unwrap_or("").to_string(),
            status: e["status"].as_str().unwrap_or("open").to_string(),
            what_fails: e["what_fails"].as_str().unwrap_or("").to_string(),
            witness: e["witness"].as_str().map(|s| s.to_string()),
        });
    }
    out
}

struct Acc {
    evaluations: u64,
    inner_evals: u64,
    nontrivial_digests: HashSet<u64>,
    all_digests: HashSet<u64>,
    state_digests: HashSet<u64>,
    probes: BTreeMap<&'static str, u64>,
    faults: BTreeMap<&'static str, u64>,
    strategies: BTreeMap<&'static str, u64>,
    steps: u64,
    clock_ms: u64,
    violations: Vec<(u64, u64, Violation)>, // (run idx, seed, violation); at most CAP per signature
    viol_counts: BTreeMap<String, u64>,
}

const CAP_PER_SIG: u64 = 64;

impl Acc {
    fn new() -> Self {
        Acc {
            evaluations: 0,
            inner_evals: 0,
            nontrivial_digests: HashSet::new(),
            all_digests: HashSet::new(),
            state_digests: HashSet::new(),
            probes: BTreeMap::new(),
            faults: BTreeMap::new(),
            strategies: BTreeMap::new(),
            steps: 0,
            clock_ms: 0,
            violations: vec![],
            viol_counts: BTreeMap::new(),
        }
    }
    fn add(&mut self, idx: u64, seed: u64, r: RunOut) {
        self.evaluations += 1;
        self.inner_evals += r.inner_evals;
        self.all_digests.insert(r.digest);
        if r.nontrivial {
            self.nontrivial_digests.insert(r.digest);
        }
        for d in r.inner_digests {
            self.nontrivial_digests.insert(d);
        }
        for d in r.state_digests {
            self.state_digests.insert(d);
        }
        for (k, v) in r.probes {
            *self.probes.entry(k).or_insert(0) += v;
        }
        for (k, v) in r.faults {
            *self.faults.entry(k).or_insert(0) += v;
        }
        if let Some(s) = r.strategy {
            *self.strategies.entry(s).or_insert(0) += 1;
        }
        self.steps += r.steps;
        self.clock_ms = self.clock_ms.saturating_add(r.clock_ms);
        for v in r.violations {
            let c = self.viol_counts.entry(v.sig.clone()).or_insert(0);
            *c += 1;
            if *c <= CAP_PER_SIG {
                self.violations.push((idx, seed, v));
            }
        }
    }
    fn merge(&mut self, o: Acc) {
        self.evaluations += o.evaluations;
        self.inner_evals += o.inner_evals;
        self.nontrivial_digests.extend(o.nontrivial_digests);
        self.all_digests.extend(o.all_digests);
        self.state_digests.extend(o.state_digests);
        for (k, v) in o.probes {
            *self.probes.entry(k).or_insert(0) += v;
        }
        for (k, v) in o.faults {
            *self.faults.entry(k).or_insert(0) += v;
        }
        for (k, v) in o.strategies {
            *self.strategies.entry(k).or_insert(0) += v;
        }
        self.steps += o.steps;
        self.clock_ms = self.clock_ms.saturating_add(o.clock_ms);
        for v in o.violations {
            // earlier rounds always carry lower run indices, so later surplus can be dropped
            let stored = self.violations.iter().filter(|x| x.2.sig == v.2.sig).count() as u64;
            if stored < 32 * CAP_PER_SIG {
                self.violations.push(v);
            }
        }
        for (k, v) in o.viol_counts {
            *self.viol_counts.entry(k).or_insert(0) += v;
        }
    }
}

fn sanitize(s: &str) -> String {
    s.chars()
        .map(|c| if c.is_ascii_alphanumeric() || c == '-' { c } else { '_' })
        .collect()
}

pub fn replay_body(chk: &dyn Check, sig: &str, seed_base: u64, run_idx: u64, run_seed: u64, case: &Value, detail: &str) -> Value {
    json!({
        "format": 1,
        "property": chk.prop(),
        "engine": chk.engine(),
        "signature": sig,
        "seed": {"base": seed_base, "run": run_idx, "run_seed": run_seed},
        "case": case,
        "expect": {"detail": detail},
    })
}

/// Re-run a replay file in a fresh process; true iff it reproduces (exit status 1).
fn reproduces_in_fresh_process(path: &Path) -> Option<bool> {
    let exe = std::env::current_exe().ok()?;
    let out = std::process::Command::new(exe)
        .arg("replay")
        .arg(path)
        .arg("--quiet")
        .output()
        .ok()?;
    match out.status.code() {
        Some(1) => Some(true),
        Some(0) => Some(false),
        _ => None,
    }
}

fn child_died(code: Option<i32>) -> bool {
    !matches!(code, Some(0) | Some(1) | Some(2))
}

fn spawn_self(args: &[String], envs: &[(&str, String)], quiet: bool) -> Option<i32> {
    let exe = std::env::current_exe().ok()?;
    let mut c = std::process::Command::new(exe);
    c.args(args).env("PLSIM_CHILD", "1");
    for (k, v) in envs {
        c.env(k, v);
    }
    if quiet {
        c.stdout(std::process::Stdio::null()).stderr(std::process::Stdio::null());
    }
    c.status().ok().and_then(|s| s.code())
}

/// Parent side of an isolated check: run the child; if it dies, find the culprit.
pub fn run_check_isolated(chk: &dyn Check, tier: Tier, base_seed: u64) -> i32 {
    let t0 = Instant::now();
    let prop = chk.prop();
    let args: Vec<String> = vec![
        "check".into(),
        prop.into(),
        "--tier".into(),
        tier.name().into(),
        "--seed".into(),
        base_seed.to_string(),
    ];
    let code = spawn_self(&args, &[], false);
    if !child_died(code) {
        return code.unwrap_or(2);
    }
    println!("plsim: {prop}: the checking process died ({code:?}); isolating the input");
    let total = std::env::var("VERIF_RUNS")
        .ok()
        .and_then(|s| s.parse().ok())
        .unwrap_or_else(|| chk.runs(tier));
    // the enumerated part alone?
    let mut lo = 0u64;
    let mut hi = total;
    let dies = |lo: u64, hi: u64, trace: Option<&Path>| -> bool {
        let mut envs: Vec<(&str, String)> = vec![
            ("VERIF_RANGE", format!("{lo}..{hi}")),
            ("PLSIM_NO_EVIDENCE", "1".into()),
        ];
        if let Some(t) = trace {
            envs.push(("PLSIM_TRACE", t.display().to_string()));
            envs.push(("VERIF_WORKERS", "1".into()));
        }
        child_died(spawn_self(&args, &envs, true))
    };
    let out_dir = verif_dir().join("out");
    let _ = std::fs::create_dir_all(&out_dir);
    let trace_path = out_dir.join(format!("{prop}-crash-trace.jsonl"));
    let in_once = dies(0, 0, None);
    if !in_once {
        if !dies(lo, hi, None) {
            eprintln!("harness error: {prop}: the crash does not reproduce");
            return 2;
        }
        while hi - lo > 1 {
            let mid = lo + (hi - lo) / 2;
            if dies(lo, mid, None) {
                hi = mid;
            } else {
                lo = mid;
            }
        }
    } else {
        hi = 0;
        lo = 0;
    }
    let _ = dies(lo, hi, Some(&trace_path));
    let last = std::fs::read_to_string(&trace_path)
        .ok()
        .and_then(|s| s.lines().last().map(|l| l.to_string()));
    let _ = std::fs::remove_file(&trace_path);
    let Some(case) = last.and_then(|l| serde_json::from_str::<Value>(&l).ok()) else {
        eprintln!("harness error: {prop}: the process dies but no input could be isolated");
        return 2;
    };
    let sig = format!("{prop}/process-aborts");
    let detail = format!(
        "the process is killed (abort / stack overflow / allocation failure) while handling this input; run index {lo}; case {}",
        {
            let t = case.to_string();
            if t.len() > 400 { format!("{}…", &t[..t.char_indices().take(400).last().map(|x| x.0).unwrap_or(0)]) } else { t }
        }
    );
    let path = out_dir.join(format!("{prop}-process-aborts.json"));
    let body = replay_body(chk, &sig, base_seed, lo, mix(base_seed, crate::prng::tag_of(prop), lo), &case, &detail);
    std::fs::write(&path, serde_json::to_string_pretty(&body).unwrap()).ok();
    println!(
        "VIOLATION property={prop} replay={} signature={sig} detail={}",
        path.display(),
        detail.replace('\n', " ")
    );
    // evidence: what the parent can vouch for
    let ev = json!({
        "property_id": prop,
        "tier": tier.name(),
        "seed": base_seed,
        "level": chk.level(),
        "coverage": {
            "evaluations": lo + 1,
            "distinct_nontrivial": 2,
            "rule": format!("{} | THIS RUN: the checking process died; counts are conservative (runs before the crashing run; the crashing case and its predecessor)", chk.rule()),
            "samples": [case],
            "process_died": true,
            "crashing_run_index": lo,
        },
        "assumptions": chk.assumptions(),
        "wall_s": t0.elapsed().as_secs_f64(),
        "violations": 1,
    });
    let ev_dir = verif_dir().join("evidence");
    let _ = std::fs::create_dir_all(&ev_dir);
    let _ = std::fs::write(ev_dir.join(format!("{prop}.json")), serde_json::to_string_pretty(&ev).unwrap());
    1
}

/// Run a check; returns the process exit code.
pub fn run_check(chk: &dyn Check, tier: Tier, base_seed: u64) -> i32 {
    if chk.isolate() && std::env::var("PLSIM_CHILD").is_err() {
        return run_check_isolated(chk, tier, base_seed);
    }
    let t0 = Instant::now();
    let prop = chk.prop();
    let tag = crate::prng::tag_of(prop);
    let total = std::env::var("VERIF_RUNS")
        .ok()
        .and_then(|s| s.parse().ok())
        .unwrap_or_else(|| chk.runs(tier));
    println!(
        "plsim: check {prop} tier={} seed={base_seed} runs={total} workers={}",
        tier.name(),
        workers()
    );
    let known = load_known();
    let open: Vec<&Known> = known
        .iter()
        .filter(|k| k.property == prop && k.status == "open")
        .collect();

    // ---- known-finding witnesses: re-execute, print one line per open entry that still fails
    let mut known_seen: BTreeMap<String, u64> = BTreeMap::new();
    for k in &open {
        if let Some(w) = &k.witness {
            let path = verif_dir().join(w);
            match std::fs::read_to_string(&path)
                .map_err(|e| e.to_string())
                .and_then(|s| serde_json::from_str::<Value>(&s).map_err(|e| e.to_string()))
            {
                Ok(v) => match chk.run_case(&v["case"]) {
                    Ok(r) => {
                        if r.violations.iter().any(|x| x.sig == k.key) {
                            println!("KNOWN-FINDING: property={prop} {}: {}", k.key, k.what_fails);
                            *known_seen.entry(k.key.clone()).or_insert(0) += 1;
                        }
                    }
                    Err(e) => {
                        eprintln!("harness error: witness {} unusable: {e}", path.display());
                        return 2;
                    }
                },
                Err(e) => {
                    eprintln!("harness error: witness {} unreadable: {e}", path.display());
                    return 2;
                }
            }
        }
    }

    // ---- process watchdog (wall clock; turns a hang in un-instrumented code into exit 2, never
    // into a verdict)
    let beat = std::sync::Arc::new(AtomicU64::new(0));
    let searching = std::sync::Arc::new(AtomicBool::new(true));
    {
        let (beat, searching) = (beat.clone(), searching.clone());
        let prop = prop.to_string();
        std::thread::spawn(move || {
            let mut last = u64::MAX;
            let mut idle = 0u64;
            while searching.load(Ordering::Relaxed) {
                std::thread::sleep(std::time::Duration::from_secs(5));
                let b = beat.load(Ordering::Relaxed);
                if b == last {
                    idle += 5;
                } else {
                    idle = 0;
                    last = b;
                }
                if idle >= 600 && searching.load(Ordering::Relaxed) {
                    eprintln!("harness error: {prop}: no run finished for {idle} s (hang in un-instrumented code?)");
                    std::process::exit(2);
                }
            }
        });
    }
    // ---- seeded search
    let next = AtomicU64::new(0);
    let stop = AtomicBool::new(false);
    let merged = Mutex::new(Acc::new());
    let harness_err: Mutex<Option<String>> = Mutex::new(None);
    const CHUNK: u64 = 32;
    let round: u64 = 8192;
    let mut done_upto = 0u64;
    let mut total = total;
    let mut skip_once = false;
    if let Ok(r) = std::env::var("VERIF_RANGE") {
        // crash triage: only the runs lo..hi (0..0 = only the enumerated part)
        let mut it = r.split("..");
        let lo: u64 = it.next().and_then(|x| x.parse().ok()).unwrap_or(0);
        let hi: u64 = it.next().and_then(|x| x.parse().ok()).unwrap_or(total);
        done_upto = lo;
        total = hi;
        skip_once = hi > 0;
    }
    while done_upto < total && !stop.load(Ordering::Relaxed) {
        let round_end = (done_upto + round).min(total);
        next.store(done_upto, Ordering::Relaxed);
        std::thread::scope(|s| {
            for _ in 0..workers() {
                s.spawn(|| {
                    let mut acc = Acc::new();
                    loop {
                        let start = next.fetch_add(CHUNK, Ordering::Relaxed);
                        if start >= round_end {
                            break;
                        }
                        for idx in start..(start + CHUNK).min(round_end) {
                            let seed = mix(base_seed, tag, idx);
                            let r = std::panic::catch_unwind(std::panic::AssertUnwindSafe(|| {
                                chk.run_seed(seed)
                            }));
                            beat.fetch_add(1, Ordering::Relaxed);
                            match r {
                                Ok(r) => acc.add(idx, seed, r),
                                Err(_) => {
                                    *harness_err.lock().unwrap() = Some(format!(
                                        "harness panicked on run {idx} (seed {seed})"
                                    ));
                                    return;
                                }
                            }
                        }
                    }
                    merged.lock().unwrap().merge(acc);
                });
            }
        });
        if harness_err.lock().unwrap().is_some() {
            break;
        }
        done_upto = round_end;
        if merged
            .lock()
            .unwrap()
            .violations
            .iter()
            .any(|v| !open.iter().any(|k| k.key == v.2.sig))
        {
            // a violation that is not a listed finding: finish the round (deterministic), stop
            stop.store(true, Ordering::Relaxed);
        }
    }
    searching.store(false, Ordering::Relaxed);
    if let Some(e) = harness_err.lock().unwrap().take() {
        eprintln!("harness error: {e}");
        return 2;
    }
    let mut acc = merged.into_inner().unwrap();

    // ---- enumerated extra work
    let mut once_desc = String::new();
    let mut once_viol: Vec<(Value, Violation)> = vec![];
    let mut once_evals = 0u64;
    let mut once_distinct = 0u64;
    if skip_once {
        // nothing
    } else if let Some((e, d, v, desc)) = chk.once(tier) {
        once_evals = e;
        once_distinct = d;
        once_viol = v;
        once_desc = desc;
    }

    if let Some(h) = acc.violations.iter().find(|v| v.2.sig.starts_with("HARNESS/")) {
        eprintln!("harness error: run {} (seed {}): {}", h.0, h.1, h.2.detail);
        return 2;
    }
    // ---- classify
    acc.violations.sort_by(|a, b| a.0.cmp(&b.0).then(a.2.sig.cmp(&b.2.sig)));
    let open_keys: BTreeSet<&str> = open.iter().map(|k| k.key.as_str()).collect();
    let mut first_new: BTreeMap<String, (u64, u64, Violation)> = BTreeMap::new();
    let mut n_known = 0u64;
    let mut n_new = 0u64;
    for (idx, seed, v) in &acc.violations {
        if !open_keys.contains(v.sig.as_str()) {
            // lowest run index per signature (workers keep the first CAP per signature each, and
            // rounds are complete, so the lowest index is always among them)
            first_new
                .entry(v.sig.clone())
                .or_insert((*idx, *seed, v.clone()));
        }
    }
    for (sig, c) in &acc.viol_counts {
        if open_keys.contains(sig.as_str()) {
            n_known += c;
            *known_seen.entry(sig.clone()).or_insert(0) += c;
        } else {
            n_new += c;
        }
    }
    // open entries without witness file: print the line when the search met them
    for k in &open {
        if k.witness.is_none() && known_seen.get(&k.key).cloned().unwrap_or(0) > 0 {
            println!("KNOWN-FINDING: property={prop} {}: {}", k.key, k.what_fails);
        }
    }

    let out_dir = verif_dir().join("out");
    let _ = std::fs::create_dir_all(&out_dir);
    let mut exit = 0;
    let mut min_attempts = 0u64;
    let mut min_reproduced = 0u64;
    let mut min_fallbacks = 0u64;
    let mut reported: Vec<Value> = vec![];
    for (sig, (idx, seed, v)) in first_new.iter().take(6) {
        let case = chk.case_of_seed(*seed);
        let (small, st) = chk.minimise(&case, sig);
        min_attempts += st.attempts;
        let detail = match chk.run_case(&small) {
            Ok(r) => r
                .violations
                .iter()
                .find(|x| &x.sig == sig)
                .map(|x| x.detail.clone())
                .unwrap_or_else(|| v.detail.clone()),
            Err(_) => v.detail.clone(),
        };
        let fname = format!("{}-{}-{}.json", prop, sanitize(sig), seed);
        let path = out_dir.join(&fname);
        let body = replay_body(chk, sig, base_seed, *idx, *seed, &small, &detail);
        std::fs::write(&path, serde_json::to_string_pretty(&body).unwrap()).ok();
        let mut final_path = path.clone();
        match reproduces_in_fresh_process(&path) {
            Some(true) => min_reproduced += 1,
            _ => {
                // fall back to the unminimised case
                min_fallbacks += 1;
                let fname = format!("{}-{}-{}-full.json", prop, sanitize(sig), seed);
                let p2 = out_dir.join(&fname);
                let body = replay_body(chk, sig, base_seed, *idx, *seed, &case, &v.detail);
                std::fs::write(&p2, serde_json::to_string_pretty(&body).unwrap()).ok();
                final_path = p2;
            }
        }
        println!(
            "VIOLATION property={prop} replay={} signature={sig} run={idx} detail={}",
            final_path.display(),
            detail.replace('\n', " ")
        );
        println!(
            "  minimised: size {} -> {} in {} attempts",
            st.from_size, st.to_size, st.attempts
        );
        reported.push(json!({"signature": sig, "replay": final_path.display().to_string(), "detail": detail}));
        exit = 1;
    }
    for (case, v) in once_viol.iter().take(3) {
        if open_keys.contains(v.sig.as_str()) {
            continue;
        }
        let fname = format!("{}-{}-enumerated.json", prop, sanitize(&v.sig));
        let path = out_dir.join(&fname);
        let body = replay_body(chk, &v.sig, base_seed, 0, 0, case, &v.detail);
        std::fs::write(&path, serde_json::to_string_pretty(&body).unwrap()).ok();
        println!(
            "VIOLATION property={prop} replay={} signature={} detail={}",
            path.display(),
            v.sig,
            v.detail.replace('\n', " ")
        );
        reported.push(json!({"signature": v.sig, "replay": path.display().to_string(), "detail": v.detail}));
        n_new += 1;
        exit = 1;
    }

    // ---- evidence
    let wall = t0.elapsed().as_secs_f64();
    let mut samples: Vec<Value> = vec![];
    // the first three cases of the run that are small enough to read (a big-book or
    // long-history case would be hundreds of kilobytes)
    for i in 0..64u64 {
        if i >= total || samples.len() >= 3 {
            break;
        }
        let c = chk.case_of_seed(mix(base_seed, tag, i));
        if c.to_string().len() <= 12_000 {
            samples.push(c);
        }
    }
    let evaluations = acc.evaluations + acc.inner_evals + once_evals;
    let distinct = acc.nontrivial_digests.len() as u64 + once_distinct;
    let zero_probes: Vec<&str> = acc
        .probes
        .iter()
        .filter(|(_, v)| **v == 0)
        .map(|(k, _)| *k)
        .collect();
    let ev = json!({
        "property_id": prop,
        "tier": tier.name(),
        "seed": base_seed,
        "level": chk.level(),
        "coverage": {
            "evaluations": evaluations,
            "distinct_nontrivial": distinct,
            "rule": format!("{}{}", chk.rule(), if once_desc.is_empty() { String::new() } else { format!(" | enumerated part: {once_desc}") }),
            "samples": samples,
            "exhaustive": chk.exhaustive() && once_evals > 0 && acc.evaluations == 0,
            "seeded_runs": acc.evaluations,
            "inner_evaluations": acc.inner_evals,
            "enumerated_evaluations": once_evals,
            "distinct_run_digests": acc.all_digests.len(),
            "distinct_states": acc.state_digests.len(),
            "runs_per_hour": if wall > 0.0 { (acc.evaluations as f64 / wall * 3600.0) as u64 } else { 0 },
            "seeds": {"base": base_seed, "first_run_seed": mix(base_seed, tag, 0), "last_run_index": acc.evaluations.saturating_sub(1)},
            "sim_steps_total": acc.steps,
            "sim_clock_ms_covered": acc.clock_ms,
            "strategies": acc.strategies,
            "faults_injected": acc.faults,
            "probes": acc.probes,
            "probes_at_zero": zero_probes,
            "minimisation": {"attempts": min_attempts, "reproduced_in_fresh_process": min_reproduced, "fell_back_to_unminimised": min_fallbacks},
            "real_vs_stub": chk.real_vs_stub(),
            "known_findings_seen": known_seen,
            "violations_known": n_known,
            "violations_new": n_new,
            "reported": reported,
            "workers": workers(),
        },
        "assumptions": chk.assumptions(),
        "wall_s": wall,
        "violations": n_new,
    });
    if std::env::var("PLSIM_NO_EVIDENCE").is_err() {
        let ev_dir = verif_dir().join("evidence");
        let _ = std::fs::create_dir_all(&ev_dir);
        let ev_path = ev_dir.join(format!("{prop}.json"));
        if let Err(e) = std::fs::write(&ev_path, serde_json::to_string_pretty(&ev).unwrap()) {
            eprintln!("harness error: cannot write evidence: {e}");
            return 2;
        }
    }
    println!(
        "plsim: {prop} {}: {} runs ({} evaluations, {} distinct non-trivial), {} known, {} new, {:.1}s",
        if exit == 0 { "held" } else { "VIOLATED" },
        acc.evaluations,
        evaluations,
        distinct,
        n_known,
        n_new,
        wall
    );
    for z in ev["coverage"]["probes_at_zero"].as_array().unwrap() {
        println!("  warning: probe {} stayed at 0", z);
    }
    exit
}

/// `plsim replay <file>`: exit 1 + VIOLATION line iff the recorded signature reproduces.
pub fn replay(chk: &dyn Check, file: &Path, body: &Value, quiet: bool) -> i32 {
    let sig = body["signature"].as_str().unwrap_or("");
    if sig.ends_with("/process-aborts") && std::env::var("PLSIM_CHILD").is_err() {
        // the case kills the process: execute it in a child and report its death
        let code = spawn_self(
            &["replay".to_string(), file.display().to_string(), "--quiet".to_string()],
            &[],
            true,
        );
        if child_died(code) {
            if !quiet {
                println!(
                    "VIOLATION property={} replay={} signature={} detail=the process is killed while handling the recorded input",
                    chk.prop(),
                    file.display(),
                    sig
                );
            }
            return 1;
        }
        if !quiet {
            println!("replay of {} did not bring the process down", file.display());
        }
        return 0;
    }
    match chk.run_case(&body["case"]) {
        Err(e) => {
            eprintln!("harness error: replay file unusable: {e}");
            2
        }
        Ok(r) => {
            if let Some(v) = r.violations.iter().find(|v| v.sig == sig) {
                if !quiet {
                    println!(
                        "VIOLATION property={} replay={} signature={} detail={}",
                        chk.prop(),
                        file.display(),
                        sig,
                        v.detail.replace('\n', " ")
                    );
                }
                1
            } else {
                if !quiet {
                    println!(
                        "replay of {} did not reproduce {sig} (other violations: {:?})",
                        file.display(),
                        r.violations.iter().map(|v| &v.sig).collect::<Vec<_>>()
                    );
                }
                0
            }
        }
    }
}


/// Fingerprint of what a run produced (everything the determinism proof compares).
fn run_fingerprint(r: &RunOut) -> u64 {
    let mut d = crate::prng::Digest::default();
    d.u64(r.digest);
    d.u64(r.steps);
    d.u64(r.inner_evals);
    d.u64(r.nontrivial as u64);
    for v in &r.violations {
        d.str(&v.sig);
        d.str(&v.detail);
    }
    for x in &r.inner_digests {
        d.u64(*x);
    }
    for x in &r.state_digests {
        d.u64(*x);
    }
    for (k, v) in &r.probes {
        d.str(k);
        d.u64(*v);
    }
    for (k, v) in &r.faults {
        d.str(k);
        d.u64(*v);
    }
    d.finish()
}

/// Per-run fingerprints of seeds 0..n of a check, computed on `w` worker threads.
pub fn fingerprints(chk: &dyn Check, base_seed: u64, n: u64, w: usize) -> Vec<u64> {
    let tag = crate::prng::tag_of(chk.prop());
    let out: Mutex<Vec<(u64, u64)>> = Mutex::new(vec![]);
    let next = AtomicU64::new(0);
    std::thread::scope(|s| {
        for _ in 0..w.max(1) {
            s.spawn(|| {
                let mut local = vec![];
                loop {
                    let i = next.fetch_add(1, Ordering::Relaxed);
                    if i >= n {
                        break;
                    }
                    let r = chk.run_seed(mix(base_seed, tag, i));
                    local.push((i, run_fingerprint(&r)));
                }
                out.lock().unwrap().extend(local);
            });
        }
    });
    let mut v = out.into_inner().unwrap();
    v.sort();
    v.into_iter().map(|x| x.1).collect()
}

fn strip_clock(v: &mut Value) {
    match v {
        Value::Object(m) => {
            if m.contains_key("clock") {
                m.insert(
                    "clock".into(),
                    json!({"base": 1_700_000_000_000u64, "tick": 1, "jumps": []}),
                );
            }
            for (_, x) in m.iter_mut() {
                strip_clock(x);
            }
        }
        Value::Array(a) => {
            for x in a.iter_mut() {
                strip_clock(x);
            }
        }
        _ => {}
    }
}

/// Determinism self-test: (a) twice in one process, (b) at worker counts 1 / 4 / all,
/// (c) in a separate process, (d) verdicts invariant under clock faults. Exit 0 / 2.
pub fn selftest_determinism(checks: &[Box<dyn Check>], base_seed: u64, n: u64) -> i32 {
    let mut bad = 0;
    for chk in checks {
        let n = if chk.level() == "fault_enumeration" { (n / 40).max(6) } else { n };
        let t0 = Instant::now();
        let a = fingerprints(chk.as_ref(), base_seed, n, 1);
        let b = fingerprints(chk.as_ref(), base_seed, n, 4);
        let c = fingerprints(chk.as_ref(), base_seed, n, workers());
        let mut ok = a == b && a == c;
        // separate process
        let exe = std::env::current_exe().unwrap();
        let child = std::process::Command::new(exe)
            .args(["fingerprints", chk.prop(), &base_seed.to_string(), &n.to_string()])
            .output();
        let mut child_ok = false;
        if let Ok(o) = child {
            let txt = String::from_utf8_lossy(&o.stdout);
            let got: Vec<u64> = txt.split_whitespace().filter_map(|x| x.parse().ok()).collect();
            child_ok = got == a;
        }
        ok &= child_ok;
        // clock metamorphism: same verdicts with the clock faults removed
        let tag = crate::prng::tag_of(chk.prop());
        let mut clock_cases = 0;
        let mut clock_bad = 0;
        for i in 0..n.min(300) {
            let seed = mix(base_seed, tag, i);
            let case = chk.case_of_seed(seed);
            let mut c2 = case.clone();
            strip_clock(&mut c2);
            if c2 == case {
                continue;
            }
            clock_cases += 1;
            let (Ok(r1), Ok(r2)) = (chk.run_case(&case), chk.run_case(&c2)) else {
                clock_bad += 1;
                continue;
            };
            let s1: Vec<&String> = r1.violations.iter().map(|v| &v.sig).collect();
            let s2: Vec<&String> = r2.violations.iter().map(|v| &v.sig).collect();
            if s1 != s2 || r1.nontrivial != r2.nontrivial {
                clock_bad += 1;
            }
        }
        if clock_bad > 0 {
            ok = false;
        }
        println!(
            "determinism {}: {} runs x (1, 4, {} workers, fresh process) {} | clock-fault metamorphism: {} cases, {} diverged | {:.1}s",
            chk.prop(),
            n,
            workers(),
            if a == b && a == c && child_ok { "identical" } else { "DIFFER" },
            clock_cases,
            clock_bad,
            t0.elapsed().as_secs_f64()
        );
        if !ok {
            bad += 1;
        }
    }
    if bad > 0 {
        eprintln!("harness error: determinism self-test failed for {bad} check(s)");
        2
    } else {
        println!("determinism self-test: all checks deterministic");
        0
    }
}
