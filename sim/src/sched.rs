//! The one-at-a-time scheduler of engine T: real OS threads, parked and released one at a
//! time at every instrumented shared-memory operation.  Every decision comes from a seeded
//! strategy or from a recorded schedule list; the world is stopped while observers look.

use crate::core::{BudgetExceeded, ClockCfg, SimClock};
use crate::prng::Rng;
use pricelevel::verif::{SimHooks, Site};
use serde::{Deserialize, Serialize};
use std::sync::{Arc, Condvar, Mutex};
use std::time::Duration;

#[derive(Clone, Debug, PartialEq, Serialize, Deserialize)]
pub enum Strategy {
    Uniform,
    /// keep the running thread with probability num/100
    Sticky(u8),
    /// PCT with d-1 priority change points
    Pct(u8),
    /// thread `tid` freezes at its `at`-th own step until the others are done (or `hold` steps)
    Stall { tid: u8, at: u16, hold: u16 },
    /// switch only at operation boundaries
    OpBoundary,
    /// follow the list (replay / minimisation)
    Replay(Vec<u8>),
}

impl Strategy {
    pub fn name(&self) -> &'static str {
        match self {
            Strategy::Uniform => "uniform",
            Strategy::Sticky(p) => match p {
                0..=60 => "sticky(0.5)",
                61..=85 => "sticky(0.8)",
                _ => "sticky(0.95)",
            },
            Strategy::Pct(_) => "pct",
            Strategy::Stall { .. } => "stall",
            Strategy::OpBoundary => "op-boundary",
            Strategy::Replay(_) => "replay",
        }
    }
}

#[derive(Clone, Copy, Debug, PartialEq, Eq)]
pub enum EvKind {
    Step,
    Invoke,
    Return,
    Finish,
}

#[derive(Clone, Copy, Debug)]
pub struct Ev {
    pub kind: EvKind,
    pub tid: u8,
    pub op: u8,
    pub site: Site,
    pub key: u64,
    /// outcome reported by `after` (0/1), 2 = not reported
    pub outcome: u8,
}

/// What the scheduler calls with the world stopped, right before `tid` performs the
/// operation announced by this step (so the state seen is exactly the state the operation
/// will act on).
pub trait Observer: Send {
    /// `guard_held`: the thread holds a map guard (shard lock); the observer must then not
    /// touch the map, only lock-free state.
    fn before_op(
        &mut self,
        step_no: u64,
        tid: usize,
        op: usize,
        site: Site,
        key: u64,
        guard_held: bool,
        guards_anywhere: bool,
    );
}

pub struct Inner {
    pub current: usize,
    pub alive: Vec<bool>,
    pub started: usize,
    pub finished: usize,
    pub steps: u64,
    pub budget: u64,
    pub aborted: bool,
    pub trace: Vec<Ev>,
    pub schedule: Vec<u8>,
    pub cur_op: Vec<usize>,
    own_steps: Vec<u32>,
    rng: Rng,
    strategy: Strategy,
    replay_pos: usize,
    prio: Vec<i64>,
    change_points: Vec<u64>,
    stall_released: bool,
    pub switches: u64,
    pub observer: Option<Box<dyn Observer>>,
    /// map guards held by simulated threads: (map, shard or usize::MAX, exclusive, tid)
    pub locks: Vec<(usize, usize, bool, usize)>,
    /// threads waiting for a map guard held by another thread
    pub blocked: Vec<bool>,
    pub lock_waits: u64,
    pub deadlock: bool,
    pub in_guard_preemptions: u64,
}

pub const NONE: usize = usize::MAX;

pub struct Sched {
    pub m: Mutex<Inner>,
    pub cv: Condvar,
    pub clock: SimClock,
    pub hash_seed: u64,
    pub shards: usize,
}

impl Sched {
    pub fn new(
        n: usize,
        strategy: Strategy,
        sched_seed: u64,
        budget: u64,
        clock: ClockCfg,
        hash_seed: u64,
        shards: usize,
        est_steps: u64,
    ) -> Arc<Sched> {
        let mut rng = Rng::new(sched_seed);
        let mut prio: Vec<i64> = (0..n as i64).map(|i| 1000 + i).collect();
        // shuffle priorities
        for i in (1..n).rev() {
            let j = rng.below(i as u64 + 1) as usize;
            prio.swap(i, j);
        }
        let mut change_points = vec![];
        if let Strategy::Pct(d) = &strategy {
            for _ in 1..*d {
                change_points.push(rng.below(est_steps.max(1)));
            }
            change_points.sort();
        }
        Arc::new(Sched {
            m: Mutex::new(Inner {
                current: NONE,
                alive: vec![true; n],
                started: 0,
                finished: 0,
                steps: 0,
                budget,
                aborted: false,
                trace: Vec::with_capacity(256),
                schedule: Vec::with_capacity(256),
                cur_op: vec![0; n],
                own_steps: vec![0; n],
                rng,
                strategy,
                replay_pos: 0,
                prio,
                change_points,
                stall_released: false,
                switches: 0,
                observer: None,
                locks: Vec::new(),
                blocked: vec![false; n],
                lock_waits: 0,
                deadlock: false,
                in_guard_preemptions: 0,
            }),
            cv: Condvar::new(),
            clock: SimClock::new(clock),
            hash_seed,
            shards,
        })
    }
}

impl Inner {
    fn lowest_alive(&self) -> usize {
        self.alive.iter().position(|a| *a).unwrap_or(NONE)
    }
    fn random_alive(&mut self, except: Option<usize>) -> usize {
        let c: Vec<usize> = (0..self.alive.len())
            .filter(|i| self.alive[*i] && Some(*i) != except)
            .collect();
        if c.is_empty() {
            return match except {
                Some(e) if self.alive[e] => e,
                _ => NONE,
            };
        }
        c[self.rng.below(c.len() as u64) as usize]
    }
    /// Decide who runs next. `me` = the thread at this decision point (alive or just finished),
    /// `at_boundary` = decision taken at an operation boundary / thread end.
    fn choose(&mut self, me: usize, at_boundary: bool) -> usize {
        if self.alive.iter().all(|a| !*a) {
            return NONE;
        }
        let me_alive = self.alive[me];
        let next = match self.strategy.clone() {
            Strategy::Replay(list) => {
                let want = list.get(self.replay_pos).cloned();
                self.replay_pos += 1;
                match want {
                    Some(w) if (w as usize) < self.alive.len() && self.alive[w as usize] => {
                        w as usize
                    }
                    Some(_) => {
                        if me_alive {
                            me
                        } else {
                            self.lowest_alive()
                        }
                    }
                    None => {
                        if me_alive {
                            me
                        } else {
                            self.lowest_alive()
                        }
                    }
                }
            }
            Strategy::Uniform => self.random_alive(None),
            Strategy::Sticky(p) => {
                if me_alive && self.rng.below(100) < p as u64 {
                    me
                } else {
                    self.random_alive(if me_alive { Some(me) } else { None })
                }
            }
            Strategy::OpBoundary => {
                if me_alive && !at_boundary {
                    me
                } else {
                    self.random_alive(None)
                }
            }
            Strategy::Pct(_) => {
                while let Some(cp) = self.change_points.first().cloned() {
                    if cp <= self.steps {
                        self.change_points.remove(0);
                        let low = self.prio.iter().min().cloned().unwrap_or(0) - 1;
                        if me < self.prio.len() {
                            self.prio[me] = low;
                        }
                    } else {
                        break;
                    }
                }
                let mut best = NONE;
                for i in 0..self.alive.len() {
                    if self.alive[i] && (best == NONE || self.prio[i] > self.prio[best]) {
                        best = i;
                    }
                }
                best
            }
            Strategy::Stall { tid, at, hold } => {
                let t = tid as usize % self.alive.len();
                let others_alive = (0..self.alive.len()).any(|i| i != t && self.alive[i]);
                let stalled = self.alive[t]
                    && self.own_steps[t] >= at as u32
                    && others_alive
                    && !self.stall_released;
                if stalled && self.steps > at as u64 + hold as u64 * 4 {
                    self.stall_released = true;
                }
                if stalled && !self.stall_released {
                    // anybody but t
                    let keep = me_alive && me != t && self.rng.below(100) < 70;
                    if keep { me } else { self.random_alive(Some(t)) }
                } else if self.alive[t] && self.own_steps[t] < at as u32 {
                    // run t up to its stall point first
                    t
                } else if me_alive && self.rng.below(100) < 70 {
                    me
                } else {
                    self.random_alive(None)
                }
            }
        };
        if next == NONE { self.lowest_alive() } else { next }
    }
}

impl Inner {
    /// `choose` among the threads that are not waiting for a map guard.
    fn choose_runnable(&mut self, me: usize, at_boundary: bool) -> usize {
        if !self.blocked.iter().any(|b| *b) {
            return self.choose(me, at_boundary);
        }
        let saved = self.alive.clone();
        for i in 0..self.alive.len() {
            if self.blocked[i] {
                self.alive[i] = false;
            }
        }
        let r = if self.alive.iter().any(|a| *a) {
            self.choose(me, at_boundary)
        } else {
            NONE
        };
        self.alive = saved;
        r
    }
    fn conflict(&self, tid: usize, map: usize, shard: usize, exclusive: bool) -> bool {
        self.locks.iter().any(|(m, s, e, t)| {
            *t != tid
                && *m == map
                && (*s == shard || *s == usize::MAX || shard == usize::MAX)
                && (exclusive || *e)
        })
    }
}

pub struct ThreadHooks {
    pub sched: Arc<Sched>,
    pub tid: usize,
}

impl Sched {
    fn yield_to(&self, mut g: std::sync::MutexGuard<'_, Inner>, tid: usize, at_boundary: bool) {
        let mut next = g.choose_runnable(tid, at_boundary);
        if next == NONE {
            next = tid;
        }
        g.schedule.push(next as u8);
        if next != tid {
            g.switches += 1;
            g.current = next;
            self.cv.notify_all();
            while g.current != tid && !g.aborted {
                g = self.cv.wait(g).unwrap();
            }
        }
        let aborted = g.aborted;
        drop(g);
        if aborted {
            std::panic::panic_any(BudgetExceeded);
        }
    }

    /// A program thread announces itself and waits for its first turn.
    pub fn thread_start(&self, tid: usize) {
        let mut g = self.m.lock().unwrap();
        g.started += 1;
        self.cv.notify_all();
        while g.current != tid && !g.aborted {
            g = self.cv.wait(g).unwrap();
        }
    }

    /// The driver releases the first thread once all have started.
    pub fn release_first(&self, n: usize) -> bool {
        let mut g = self.m.lock().unwrap();
        let t0 = std::time::Instant::now();
        while g.started < n {
            let (ng, to) = self.cv.wait_timeout(g, Duration::from_secs(5)).unwrap();
            g = ng;
            if to.timed_out() && t0.elapsed() > Duration::from_secs(20) {
                return false;
            }
        }
        let first = g.choose(0, true);
        g.schedule.push(first as u8);
        g.current = first;
        self.cv.notify_all();
        true
    }

    /// Wait until every program thread has finished (watchdog: wall clock, harness error only).
    pub fn wait_done(&self, n: usize, watchdog: Duration) -> bool {
        let mut g = self.m.lock().unwrap();
        let t0 = std::time::Instant::now();
        while g.finished < n {
            let (ng, _) = self.cv.wait_timeout(g, Duration::from_millis(200)).unwrap();
            g = ng;
            if t0.elapsed() > watchdog {
                g.aborted = true;
                self.cv.notify_all();
                return false;
            }
        }
        true
    }

    pub fn op_begin(&self, tid: usize, op: usize) {
        let mut g = self.m.lock().unwrap();
        if g.aborted {
            drop(g);
            std::panic::panic_any(BudgetExceeded);
        }
        g.cur_op[tid] = op;
        g.trace.push(Ev {
            kind: EvKind::Invoke,
            tid: tid as u8,
            op: op as u8,
            site: Site::Clock,
            key: 0,
            outcome: 2,
        });
        self.yield_to(g, tid, true);
    }

    pub fn op_end(&self, tid: usize, op: usize) {
        let mut g = self.m.lock().unwrap();
        g.trace.push(Ev {
            kind: EvKind::Return,
            tid: tid as u8,
            op: op as u8,
            site: Site::Clock,
            key: 0,
            outcome: 2,
        });
    }

    pub fn finish(&self, tid: usize) {
        let mut g = self.m.lock().unwrap();
        g.alive[tid] = false;
        g.finished += 1;
        g.trace.push(Ev {
            kind: EvKind::Finish,
            tid: tid as u8,
            op: 0,
            site: Site::Clock,
            key: 0,
            outcome: 2,
        });
        let mut next = g.choose_runnable(tid, true);
        if next == NONE && g.alive.iter().any(|a| *a) {
            // everybody left is waiting for a guard: none can be held by a finished thread
            for b in g.blocked.iter_mut() {
                *b = false;
            }
            next = g.choose(tid, true);
        }
        if next != NONE {
            g.schedule.push(next as u8);
        }
        g.current = next;
        self.cv.notify_all();
    }

    fn step(&self, tid: usize, site: Site, key: u64, guard_held: bool) {
        let mut g = self.m.lock().unwrap();
        if g.aborted {
            drop(g);
            std::panic::panic_any(BudgetExceeded);
        }
        g.steps += 1;
        g.own_steps[tid] += 1;
        if g.steps > g.budget {
            g.aborted = true;
            self.cv.notify_all();
            drop(g);
            std::panic::panic_any(BudgetExceeded);
        }
        // decide who runs; if it is not me, park here (also while holding a map guard: another
        // thread that needs that guard waits in `acquire`, everything else may interleave)
        let mut next = g.choose_runnable(tid, false);
        if next == NONE {
            next = tid;
        }
        g.schedule.push(next as u8);
        if next != tid {
            g.switches += 1;
            if guard_held {
                g.in_guard_preemptions += 1;
            }
            g.current = next;
            self.cv.notify_all();
            while g.current != tid && !g.aborted {
                g = self.cv.wait(g).unwrap();
            }
            if g.aborted {
                drop(g);
                std::panic::panic_any(BudgetExceeded);
            }
        }
        // I am running and about to perform the operation: record it and let the observer look
        let op = g.cur_op[tid];
        let step_no = g.trace.len() as u64;
        g.trace.push(Ev {
            kind: EvKind::Step,
            tid: tid as u8,
            op: op as u8,
            site,
            key,
            outcome: 2,
        });
        let guards_anywhere = !g.locks.is_empty();
        if let Some(mut ob) = g.observer.take() {
            ob.before_op(step_no, tid, op, site, key, guard_held, guards_anywhere);
            g.observer = Some(ob);
        }
    }

    /// Wait (running other threads meanwhile) until no other simulated thread holds a guard that
    /// conflicts with the requested one.
    fn acquire(&self, tid: usize, map: usize, shard: usize, exclusive: bool) {
        let mut g = self.m.lock().unwrap();
        let mut waited = false;
        loop {
            if g.aborted {
                drop(g);
                std::panic::panic_any(BudgetExceeded);
            }
            if !g.conflict(tid, map, shard, exclusive) {
                g.blocked[tid] = false;
                if waited {
                    // the operation takes effect now, not when it was announced: move its event
                    // to the end of the trace so that trace order is the order of effects
                    if let Some(i) = g
                        .trace
                        .iter()
                        .rposition(|e| e.kind == EvKind::Step && e.tid as usize == tid)
                    {
                        let e = g.trace.remove(i);
                        g.trace.push(e);
                    }
                }
                return;
            }
            waited = true;
            g.blocked[tid] = true;
            g.lock_waits += 1;
            g.steps += 1;
            if g.steps > g.budget {
                g.aborted = true;
                self.cv.notify_all();
                drop(g);
                std::panic::panic_any(BudgetExceeded);
            }
            let next = g.choose_runnable(tid, false);
            if next == NONE {
                // every live thread waits for a guard held by another one
                g.deadlock = true;
                g.aborted = true;
                self.cv.notify_all();
                drop(g);
                std::panic::panic_any(BudgetExceeded);
            }
            g.schedule.push(next as u8);
            g.switches += 1;
            g.current = next;
            self.cv.notify_all();
            while g.current != tid && !g.aborted {
                g = self.cv.wait(g).unwrap();
            }
        }
    }

    fn hold(&self, tid: usize, map: usize, shard: usize, exclusive: bool) {
        let mut g = self.m.lock().unwrap();
        g.locks.push((map, shard, exclusive, tid));
    }

    fn release(&self, tid: usize, map: usize, shard: usize, exclusive: bool) {
        let mut g = self.m.lock().unwrap();
        if let Some(i) = g
            .locks
            .iter()
            .rposition(|x| *x == (map, shard, exclusive, tid))
        {
            g.locks.remove(i);
        }
        for b in g.blocked.iter_mut() {
            *b = false;
        }
    }

    fn after(&self, tid: usize, _site: Site, _key: u64, outcome: u64) {
        let mut g = self.m.lock().unwrap();
        // the last Step event of this thread is the operation just performed
        if let Some(e) = g
            .trace
            .iter_mut()
            .rev()
            .find(|e| e.kind == EvKind::Step && e.tid as usize == tid)
        {
            e.outcome = outcome as u8;
        }
    }
}

impl SimHooks for ThreadHooks {
    fn step(&self, site: Site, key: u64, guard_held: bool) {
        self.sched.step(self.tid, site, key, guard_held);
    }
    fn after(&self, site: Site, key: u64, outcome: u64) {
        self.sched.after(self.tid, site, key, outcome);
    }
    fn acquire(&self, map: usize, shard: usize, exclusive: bool) {
        self.sched.acquire(self.tid, map, shard, exclusive);
    }
    fn hold(&self, map: usize, shard: usize, exclusive: bool) {
        self.sched.hold(self.tid, map, shard, exclusive);
    }
    fn release(&self, map: usize, shard: usize, exclusive: bool) {
        self.sched.release(self.tid, map, shard, exclusive);
    }
    fn now_millis(&self) -> u64 {
        self.sched.clock.read()
    }
    fn hash_seed(&self) -> u64 {
        self.sched.hash_seed
    }
    fn shards(&self) -> usize {
        self.sched.shards
    }
}
