//! Harness-side descriptions of orders and operations.  These are the units of
//! generation, minimisation and replay; they never go through the library's
//! own codecs, so a broken codec cannot break replay.

use pricelevel::{OrderId, OrderType, OrderUpdate, PegReferenceType, Side, TimeInForce};
use serde::{Deserialize, Serialize};
use ulid::Ulid;
use uuid::Uuid;

pub type Order = OrderType<()>;

#[derive(Clone, Copy, Debug, PartialEq, Eq, PartialOrd, Ord, Hash)]
pub struct IdS {
    pub ulid: bool,
    pub v: u128,
}

impl IdS {
    pub fn to_lib(self) -> OrderId {
        if self.ulid {
            OrderId::from_ulid(Ulid(self.v))
        } else {
            OrderId::from_uuid(Uuid::from_u128(self.v))
        }
    }
    pub fn of(id: OrderId) -> IdS {
        match id {
            OrderId::Uuid(u) => IdS {
                ulid: false,
                v: u.as_u128(),
            },
            OrderId::Ulid(u) => IdS { ulid: true, v: u.0 },
        }
    }
    pub fn short(self) -> String {
        format!("{}{:x}", if self.ulid { "L" } else { "U" }, self.v)
    }
}

impl Serialize for IdS {
    fn serialize<S: serde::Serializer>(&self, s: S) -> Result<S::Ok, S::Error> {
        s.serialize_str(&self.short())
    }
}
impl<'de> Deserialize<'de> for IdS {
    fn deserialize<D: serde::Deserializer<'de>>(d: D) -> Result<Self, D::Error> {
        let s = String::deserialize(d)?;
        let (k, rest) = s.split_at(1.min(s.len()));
        let v = u128::from_str_radix(rest, 16).map_err(serde::de::Error::custom)?;
        match k {
            "L" => Ok(IdS { ulid: true, v }),
            "U" => Ok(IdS { ulid: false, v }),
            _ => Err(serde::de::Error::custom("bad id")),
        }
    }
}

#[derive(Clone, Copy, Debug, PartialEq, Eq, Serialize, Deserialize, PartialOrd, Ord, Hash)]
pub enum Kind {
    Standard,
    Iceberg,
    PostOnly,
    TrailingStop,
    Pegged,
    MarketToLimit,
    Reserve,
}

pub const ALL_KINDS: [Kind; 7] = [
    Kind::Standard,
    Kind::Iceberg,
    Kind::PostOnly,
    Kind::TrailingStop,
    Kind::Pegged,
    Kind::MarketToLimit,
    Kind::Reserve,
];

#[derive(Clone, Copy, Debug, PartialEq, Eq, Serialize, Deserialize)]
pub enum Tif {
    Gtc,
    Ioc,
    Fok,
    Day,
    Gtd(u64),
}

impl Tif {
    pub fn to_lib(self) -> TimeInForce {
        match self {
            Tif::Gtc => TimeInForce::Gtc,
            Tif::Ioc => TimeInForce::Ioc,
            Tif::Fok => TimeInForce::Fok,
            Tif::Day => TimeInForce::Day,
            Tif::Gtd(x) => TimeInForce::Gtd(x),
        }
    }
    pub fn of(t: TimeInForce) -> Tif {
        match t {
            TimeInForce::Gtc => Tif::Gtc,
            TimeInForce::Ioc => Tif::Ioc,
            TimeInForce::Fok => Tif::Fok,
            TimeInForce::Day => Tif::Day,
            TimeInForce::Gtd(x) => Tif::Gtd(x),
        }
    }
}

#[derive(Clone, Copy, Debug, PartialEq, Eq, Serialize, Deserialize)]
pub struct OrderSpec {
    pub kind: Kind,
    pub id: IdS,
    pub price: u64,
    pub vis: u64,
    #[serde(default)]
    pub hid: u64,
    pub buy: bool,
    pub ts: u64,
    pub tif: Tif,
    /// TrailingStop: trail_amount; Reserve: replenish_threshold
    #[serde(default)]
    pub p1: u64,
    /// TrailingStop: last_reference_price; Reserve: replenish_amount (if `p2_some`)
    #[serde(default)]
    pub p2: u64,
    #[serde(default)]
    pub p2_some: bool,
    /// Pegged: offset
    #[serde(default)]
    pub off: i64,
    /// Pegged: reference type 0..4
    #[serde(default)]
    pub peg: u8,
    /// Reserve: auto_replenish
    #[serde(default)]
    pub auto: bool,
}

pub fn side_of(buy: bool) -> Side {
    if buy { Side::Buy } else { Side::Sell }
}

pub fn peg_of(p: u8) -> PegReferenceType {
    match p % 4 {
        0 => PegReferenceType::BestBid,
        1 => PegReferenceType::BestAsk,
        2 => PegReferenceType::MidPrice,
        _ => PegReferenceType::LastTrade,
    }
}

impl OrderSpec {
    pub fn to_lib(&self) -> Order {
        let id = self.id.to_lib();
        let side = side_of(self.buy);
        let time_in_force = self.tif.to_lib();
        match self.kind {
            Kind::Standard => OrderType::Standard {
                id,
                price: self.price,
                quantity: self.vis,
                side,
                timestamp: self.ts,
                time_in_force,
                extra_fields: (),
            },
            Kind::PostOnly => OrderType::PostOnly {
                id,
                price: self.price,
                quantity: self.vis,
                side,
                timestamp: self.ts,
                time_in_force,
                extra_fields: (),
            },
            Kind::MarketToLimit => OrderType::MarketToLimit {
                id,
                price: self.price,
                quantity: self.vis,
                side,
                timestamp: self.ts,
                time_in_force,
                extra_fields: (),
            },
            Kind::TrailingStop => OrderType::TrailingStop {
                id,
                price: self.price,
                quantity: self.vis,
                side,
                timestamp: self.ts,
                time_in_force,
                trail_amount: self.p1,
                last_reference_price: self.p2,
                extra_fields: (),
            },
            Kind::Pegged => OrderType::PeggedOrder {
                id,
                price: self.price,
                quantity: self.vis,
                side,
                timestamp: self.ts,
                time_in_force,
                reference_price_offset: self.off,
                reference_price_type: peg_of(self.peg),
                extra_fields: (),
            },
            Kind::Iceberg => OrderType::IcebergOrder {
                id,
                price: self.price,
                visible_quantity: self.vis,
                hidden_quantity: self.hid,
                side,
                timestamp: self.ts,
                time_in_force,
                extra_fields: (),
            },
            Kind::Reserve => OrderType::ReserveOrder {
                id,
                price: self.price,
                visible_quantity: self.vis,
                hidden_quantity: self.hid,
                side,
                timestamp: self.ts,
                time_in_force,
                replenish_threshold: self.p1,
                replenish_amount: if self.p2_some { Some(self.p2) } else { None },
                auto_replenish: self.auto,
                extra_fields: (),
            },
        }
    }

    pub fn of(o: &Order) -> OrderSpec {
        let mut s = OrderSpec {
            kind: kind(o),
            id: IdS::of(oid(o)),
            price: oprice(o),
            vis: vis(o),
            hid: hid(o),
            buy: matches!(oside(o), Side::Buy),
            ts: ots(o),
            tif: Tif::of(otif(o)),
            p1: 0,
            p2: 0,
            p2_some: false,
            off: 0,
            peg: 0,
            auto: false,
        };
        match o {
            OrderType::TrailingStop {
                trail_amount,
                last_reference_price,
                ..
            } => {
                s.p1 = *trail_amount;
                s.p2 = *last_reference_price;
            }
            OrderType::PeggedOrder {
                reference_price_offset,
                reference_price_type,
                ..
            } => {
                s.off = *reference_price_offset;
                s.peg = match reference_price_type {
                    PegReferenceType::BestBid => 0,
                    PegReferenceType::BestAsk => 1,
                    PegReferenceType::MidPrice => 2,
                    PegReferenceType::LastTrade => 3,
                };
            }
            OrderType::ReserveOrder {
                replenish_threshold,
                replenish_amount,
                auto_replenish,
                ..
            } => {
                s.p1 = *replenish_threshold;
                s.p2 = replenish_amount.unwrap_or(0);
                s.p2_some = replenish_amount.is_some();
                s.auto = *auto_replenish;
            }
            _ => {}
        }
        s
    }

    /// Same order with other quantities (used by the rule model).
    pub fn with_q(&self, vis: u64, hid: u64) -> OrderSpec {
        let mut s = *self;
        s.vis = vis;
        s.hid = hid;
        s
    }

    pub fn brief(&self) -> String {
        let mut s = format!(
            "{:?}#{} {}+{} p{} ts{}",
            self.kind,
            self.id.short(),
            self.vis,
            self.hid,
            self.price,
            self.ts
        );
        if self.kind == Kind::Reserve {
            s.push_str(&format!(
                " thr{} amt{} auto{}",
                self.p1,
                if self.p2_some {
                    self.p2.to_string()
                } else {
                    "None".into()
                },
                self.auto
            ));
        }
        s
    }
}

// ---- accessors written against the enum's public fields (not the library's getters) ----

pub fn kind(o: &Order) -> Kind {
    match o {
        OrderType::Standard { .. } => Kind::Standard,
        OrderType::IcebergOrder { .. } => Kind::Iceberg,
        OrderType::PostOnly { .. } => Kind::PostOnly,
        OrderType::TrailingStop { .. } => Kind::TrailingStop,
        OrderType::PeggedOrder { .. } => Kind::Pegged,
        OrderType::MarketToLimit { .. } => Kind::MarketToLimit,
        OrderType::ReserveOrder { .. } => Kind::Reserve,
    }
}
pub fn oid(o: &Order) -> OrderId {
    match o {
        OrderType::Standard { id, .. }
        | OrderType::IcebergOrder { id, .. }
        | OrderType::PostOnly { id, .. }
        | OrderType::TrailingStop { id, .. }
        | OrderType::PeggedOrder { id, .. }
        | OrderType::MarketToLimit { id, .. }
        | OrderType::ReserveOrder { id, .. } => *id,
    }
}
pub fn oprice(o: &Order) -> u64 {
    match o {
        OrderType::Standard { price, .. }
        | OrderType::IcebergOrder { price, .. }
        | OrderType::PostOnly { price, .. }
        | OrderType::TrailingStop { price, .. }
        | OrderType::PeggedOrder { price, .. }
        | OrderType::MarketToLimit { price, .. }
        | OrderType::ReserveOrder { price, .. } => *price,
    }
}
pub fn vis(o: &Order) -> u64 {
    match o {
        OrderType::Standard { quantity, .. }
        | OrderType::PostOnly { quantity, .. }
        | OrderType::TrailingStop { quantity, .. }
        | OrderType::PeggedOrder { quantity, .. }
        | OrderType::MarketToLimit { quantity, .. } => *quantity,
        OrderType::IcebergOrder {
            visible_quantity, ..
        }
        | OrderType::ReserveOrder {
            visible_quantity, ..
        } => *visible_quantity,
    }
}
pub fn hid(o: &Order) -> u64 {
    match o {
        OrderType::IcebergOrder {
            hidden_quantity, ..
        }
        | OrderType::ReserveOrder {
            hidden_quantity, ..
        } => *hidden_quantity,
        _ => 0,
    }
}
pub fn oside(o: &Order) -> Side {
    match o {
        OrderType::Standard { side, .. }
        | OrderType::IcebergOrder { side, .. }
        | OrderType::PostOnly { side, .. }
        | OrderType::TrailingStop { side, .. }
        | OrderType::PeggedOrder { side, .. }
        | OrderType::MarketToLimit { side, .. }
        | OrderType::ReserveOrder { side, .. } => *side,
    }
}
pub fn ots(o: &Order) -> u64 {
    match o {
        OrderType::Standard { timestamp, .. }
        | OrderType::IcebergOrder { timestamp, .. }
        | OrderType::PostOnly { timestamp, .. }
        | OrderType::TrailingStop { timestamp, .. }
        | OrderType::PeggedOrder { timestamp, .. }
        | OrderType::MarketToLimit { timestamp, .. }
        | OrderType::ReserveOrder { timestamp, .. } => *timestamp,
    }
}
pub fn otif(o: &Order) -> TimeInForce {
    match o {
        OrderType::Standard { time_in_force, .. }
        | OrderType::IcebergOrder { time_in_force, .. }
        | OrderType::PostOnly { time_in_force, .. }
        | OrderType::TrailingStop { time_in_force, .. }
        | OrderType::PeggedOrder { time_in_force, .. }
        | OrderType::MarketToLimit { time_in_force, .. }
        | OrderType::ReserveOrder { time_in_force, .. } => *time_in_force,
    }
}
pub fn opposite(s: Side) -> Side {
    match s {
        Side::Buy => Side::Sell,
        Side::Sell => Side::Buy,
    }
}

// ---- operations ----

#[derive(Clone, Copy, Debug, PartialEq, Eq, Serialize, Deserialize)]
pub enum UpdKind {
    Price,
    Qty,
    PriceQty,
    Cancel,
    Replace,
}

#[derive(Clone, Copy, Debug, PartialEq, Eq, Serialize, Deserialize)]
pub struct UpdSpec {
    pub kind: UpdKind,
    pub id: IdS,
    #[serde(default)]
    pub price: u64,
    #[serde(default)]
    pub qty: u64,
    #[serde(default)]
    pub buy: bool,
}

impl UpdSpec {
    pub fn to_lib(&self) -> OrderUpdate {
        let order_id = self.id.to_lib();
        match self.kind {
            UpdKind::Price => OrderUpdate::UpdatePrice {
                order_id,
                new_price: self.price,
            },
            UpdKind::Qty => OrderUpdate::UpdateQuantity {
                order_id,
                new_quantity: self.qty,
            },
            UpdKind::PriceQty => OrderUpdate::UpdatePriceAndQuantity {
                order_id,
                new_price: self.price,
                new_quantity: self.qty,
            },
            UpdKind::Cancel => OrderUpdate::Cancel { order_id },
            UpdKind::Replace => OrderUpdate::Replace {
                order_id,
                price: self.price,
                quantity: self.qty,
                side: side_of(self.buy),
            },
        }
    }
    /// Does this update, at a level with price `lp`, take the order away (cancel / price move)?
    pub fn removes(&self, lp: u64) -> bool {
        match self.kind {
            UpdKind::Cancel => true,
            UpdKind::Price | UpdKind::PriceQty | UpdKind::Replace => self.price != lp,
            UpdKind::Qty => false,
        }
    }
    /// Is it a same-price quantity amendment at a level with price `lp`? Returns the new quantity.
    pub fn amends(&self, lp: u64) -> Option<u64> {
        match self.kind {
            UpdKind::Qty => Some(self.qty),
            UpdKind::PriceQty | UpdKind::Replace if self.price == lp => Some(self.qty),
            _ => None,
        }
    }
    pub fn brief(&self) -> String {
        format!(
            "{:?}#{} p{} q{}",
            self.kind,
            self.id.short(),
            self.price,
            self.qty
        )
    }
}

/// Read-only calls (C07 purity).
pub const N_READS: u8 = 8;
/// Ways of rebuilding a level (C10 / crash-restart).
pub const N_RESTORE_PATHS: u8 = 8;

#[derive(Clone, Debug, PartialEq, Serialize, Deserialize)]
pub enum Op {
    Add(OrderSpec),
    Match {
        qty: u64,
        taker: IdS,
    },
    Upd(UpdSpec),
    /// read-only call number (see engine S)
    Read(u8),
    /// rebuild the level: path 0..N_RESTORE_PATHS, lie = aggregate corruption 0 (none) ..3
    Restore {
        path: u8,
        lie: u8,
    },
    /// read-only `match_against` probes on every resting order
    Probe,
}

impl Op {
    pub fn brief(&self) -> String {
        match self {
            Op::Add(o) => format!("add {}", o.brief()),
            Op::Match { qty, .. } => format!("match {qty}"),
            Op::Upd(u) => u.brief(),
            Op::Read(k) => format!("read{k}"),
            Op::Restore { path, lie } => format!("restore path{path} lie{lie}"),
            Op::Probe => "probe".into(),
        }
    }
    pub fn is_mutating(&self) -> bool {
        !matches!(self, Op::Read(_) | Op::Probe)
    }
}
