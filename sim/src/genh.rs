//! Seeded generation of histories (engine S), swarm style: every run draws its own
//! sizes, order-type subset, quantity pool, timestamp policy, id format, operation mix,
//! hasher seed, shard count and clock faults from the knob stream of its seed.

use crate::core::ClockCfg;
use crate::model::rule;
use crate::prng::Rng;
use crate::seq::{History, Knobs};
use crate::spec::*;

#[derive(Clone, Debug)]
pub struct Profile {
    pub zero: bool,
    /// share of runs (percent) with zero quantities when `zero` is on
    pub zero_pct: u64,
    pub restores: bool,
    pub reads: bool,
    pub probes: bool,
    pub offprice: bool,
    pub corner: bool,
    pub max_ops: usize,
    pub final_drain: bool,
    /// extra weight on cancel-then-re-add and same-price amends (C04)
    pub priority_mix: bool,
    /// extra weight on all five update kinds (C07)
    pub update_mix: bool,
    /// timestamp policies with ties / non-monotone values favoured (C10, C11)
    pub ts_stress: bool,
    pub kinds: Option<Vec<Kind>>,
}

impl Default for Profile {
    fn default() -> Self {
        Profile {
            zero: false,
            zero_pct: 75,
            restores: true,
            reads: true,
            probes: false,
            offprice: false,
            corner: true,
            max_ops: 40,
            final_drain: true,
            priority_mix: false,
            update_mix: false,
            ts_stress: false,
            kinds: None,
        }
    }
}

#[derive(Clone, Copy, PartialEq, Debug)]
pub enum QPool {
    Small,
    Medium,
    Corner,
}

pub struct Gen {
    pub k: Rng, // knobs
    pub w: Rng, // workload
    pub f: Rng, // faults
    pub kinds: Vec<Kind>,
    pub pool: QPool,
    pub zero: bool,
    pub ts_policy: u8,
    pub id_fmt: u8,
    pub price: u64,
    pub offprice: bool,
    pub cap: u128,
    pub supplied: u128,
    pub next_id: u64,
    pub next_ts: u64,
    /// spec-side picture of the book, in priority order (targeting only)
    pub book: Vec<OrderSpec>,
    pub gone: Vec<IdS>,
    /// most orders the generated book may hold at once
    pub book_cap: usize,
    /// unused identifiers of the corner pool (id format 4)
    pub id_pool: Vec<IdS>,
}

/// Identifiers with particular bit patterns: nil, all ones, pairs that agree in the low or in
/// the high 64 bits, and the same 128 bits once as UUID and once as ULID.
fn corner_ids() -> Vec<IdS> {
    let vs: [u128; 12] = [
        0,
        1,
        u128::MAX,
        u128::MAX - 1,
        1 << 64,
        (1 << 64) | 1,
        2 << 64,
        (2 << 64) | 1,
        u64::MAX as u128,
        (u64::MAX as u128) << 64,
        0x8000_0000_0000_0000_0000_0000_0000_0000,
        0x0000_0000_0000_0001_0000_0000_0000_0000 << 1,
    ];
    let mut v = vec![];
    for x in vs {
        v.push(IdS { ulid: false, v: x });
        v.push(IdS { ulid: true, v: x });
    }
    v.sort();
    v.dedup();
    v
}

const CORNERS: [u64; 9] = [
    1,
    2,
    (1 << 32) - 1,
    1 << 32,
    (1 << 32) + 1,
    (1 << 53) - 1,
    (1 << 53) + 1,
    1 << 60,
    1 << 61,
];

impl Gen {
    pub fn new(seed: u64, p: &Profile) -> Gen {
        let mut k = Rng::stream(seed, 1);
        let w = Rng::stream(seed, 2);
        let f = Rng::stream(seed, 4);
        let mut kinds: Vec<Kind> = match &p.kinds {
            Some(v) => v.clone(),
            None => ALL_KINDS.iter().cloned().filter(|_| k.chance(1, 2)).collect(),
        };
        if kinds.is_empty() {
            kinds = ALL_KINDS.to_vec();
        }
        let pool = match k.below(100) {
            0..=59 => QPool::Small,
            60..=84 => QPool::Medium,
            _ => {
                if p.corner {
                    QPool::Corner
                } else {
                    QPool::Small
                }
            }
        };
        let zero = p.zero && k.below(100) < p.zero_pct;
        let ts_policy = if p.ts_stress {
            *k.pick(&[1u8, 2, 2, 3, 4, 4, 5, 0])
        } else {
            *k.pick(&[0u8, 0, 0, 1, 2, 3, 4, 5])
        };
        let mut id_fmt = k.below(4) as u8;
        if k.chance(1, 8) {
            id_fmt = 4;
        }
        let mut id_pool = corner_ids();
        if id_fmt == 4 {
            // shuffled once per run
            for i in (1..id_pool.len()).rev() {
                let j = k.below(i as u64 + 1) as usize;
                id_pool.swap(i, j);
            }
        }
        let price = match pool {
            QPool::Corner => *k.pick(&[1u64, 1, 2, 3]),
            _ => *k.pick(&[1u64, 7, 100, 100, 10_000, 1 << 32, 0]),
        };
        let offprice = p.offprice && k.chance(1, 3);
        // price * quantity sums must fit in 64 bits, also for the off-price orders (price + 1..=5)
        let cap = ((u64::MAX / 2) / (price.max(1) + 8)) as u128;
        let cap = cap.min(1u128 << 62);
        Gen {
            k,
            w,
            f,
            kinds,
            pool,
            zero,
            ts_policy,
            id_fmt,
            price,
            offprice,
            cap,
            supplied: 0,
            next_id: 0,
            next_ts: 1000,
            book: vec![],
            gone: vec![],
            book_cap: 12,
            id_pool,
        }
    }

    pub fn fresh_id(&mut self) -> IdS {
        self.next_id += 1;
        let n = self.next_id as u128;
        match self.id_fmt {
            0 => IdS { ulid: false, v: n },
            1 => IdS { ulid: true, v: n },
            2 => IdS {
                ulid: false,
                v: (self.w.u128() & !0xffff) | n,
            },
            4 => match self.id_pool.pop() {
                Some(id) => id,
                None => IdS {
                    ulid: n % 2 == 0,
                    v: 0x5_0000 + n,
                },
            },
            _ => IdS {
                ulid: self.w.chance(1, 2),
                v: (self.w.u128() & !0xffff) | n,
            },
        }
    }

    fn ts(&mut self) -> u64 {
        self.next_ts += 1;
        match self.ts_policy {
            0 => self.next_ts,
            1 => 5000,
            2 => self.next_ts / 3,
            3 => 1_000_000 - self.next_ts,
            4 => 1 + self.w.below(6),
            _ => *self.w.pick(&[0, u64::MAX, 1, u64::MAX - 1, 1 << 63]),
        }
    }

    fn room(&self) -> u128 {
        self.cap.saturating_sub(self.supplied)
    }

    /// displayed quantity
    fn q_vis(&mut self) -> u64 {
        let z = self.zero && self.w.chance(1, 5);
        if z {
            return 0;
        }
        let v = match self.pool {
            QPool::Small => 1 + self.w.below(12),
            QPool::Medium => 1 + self.w.below(1000),
            QPool::Corner => {
                if self.w.chance(1, 3) {
                    1 + self.w.below(12)
                } else {
                    *self.w.pick(&CORNERS)
                }
            }
        };
        (v as u128).min(self.room().max(1)) as u64
    }

    fn tif(&mut self) -> Tif {
        match self.w.below(8) {
            0 => Tif::Ioc,
            1 => Tif::Fok,
            2 => Tif::Day,
            3 => Tif::Gtd(*self.w.pick(&[0, 1, 1_700_000_000, u64::MAX])),
            _ => Tif::Gtc,
        }
    }

    pub fn order(&mut self, id: IdS) -> OrderSpec {
        let kind = *self.w.pick(&self.kinds.clone());
        let vis = self.q_vis();
        let mut o = OrderSpec {
            kind,
            id,
            price: if self.offprice && self.w.chance(1, 3) {
                self.price + 1 + self.w.below(5)
            } else {
                self.price
            },
            vis,
            hid: 0,
            buy: self.w.chance(1, 2),
            ts: self.ts(),
            tif: self.tif(),
            p1: 0,
            p2: 0,
            p2_some: false,
            off: 0,
            peg: 0,
            auto: false,
        };
        let room_h = self.room().saturating_sub(vis as u128);
        match kind {
            Kind::Iceberg => {
                let h = match self.pool {
                    QPool::Small => self.w.below(21),
                    _ => self.w.below(61),
                };
                let h = if self.w.chance(1, 6) { 0 } else { h };
                o.hid = (h as u128).min(room_h) as u64;
            }
            Kind::Reserve => {
                o.auto = self.w.chance(2, 3);
                o.p2_some = self.w.chance(3, 4);
                let h = match self.pool {
                    QPool::Small => self.w.below(21),
                    QPool::Medium => self.w.below(1000),
                    QPool::Corner => {
                        if self.w.chance(1, 2) {
                            self.w.below(21)
                        } else {
                            *self.w.pick(&CORNERS)
                        }
                    }
                };
                let h = (h as u128).min(room_h) as u64;
                o.hid = h;
                // amount: None(80) / 0 / 1 / small / > hidden, kept large enough for <= ~40 rounds
                let min_amt = h / 40 + 1;
                if o.p2_some {
                    o.p2 = match self.w.below(5) {
                        0 if self.zero => 0,
                        0 | 1 => min_amt,
                        2 => min_amt + self.w.below(5),
                        3 => h.saturating_add(1 + self.w.below(3)),
                        _ => min_amt + self.w.below(12),
                    };
                } else if h / 80 > 40 {
                    o.p2_some = true;
                    o.p2 = min_amt;
                }
                o.p1 = match self.w.below(5) {
                    0 => 0,
                    1 => 1,
                    2 => 1 + self.w.below(6),
                    3 => vis,
                    _ => vis.saturating_add(1 + self.w.below(4)),
                };
            }
            Kind::TrailingStop => {
                o.p1 = self.w.below(100);
                o.p2 = self.w.below(20_000);
            }
            Kind::Pegged => {
                o.off = *self.w.pick(&[0i64, 1, -1, 50, -50, i64::MAX, i64::MIN]);
                o.peg = self.w.below(4) as u8;
            }
            _ => {}
        }
        o
    }

    // ---- spec-side book (targeting only) ----

    fn book_add(&mut self, o: OrderSpec) {
        self.supplied += o.vis as u128 + o.hid as u128;
        self.book.push(o);
    }
    fn book_remove(&mut self, id: IdS) {
        if let Some(i) = self.book.iter().position(|o| o.id == id) {
            self.book.remove(i);
            self.gone.push(id);
        }
    }
    fn book_match(&mut self, mut q: u64) {
        let mut idle = 0usize;
        let mut guard = 0usize;
        while q > 0 && !self.book.is_empty() && idle <= self.book.len() && guard < 4000 {
            guard += 1;
            let o = self.book.remove(0);
            let r = rule(&o, q);
            if r.consumed == 0 && r.moved == 0 {
                idle += 1;
            } else {
                idle = 0;
            }
            q = r.remaining;
            match r.next {
                None => self.gone.push(o.id),
                Some(n) => {
                    if r.moved > 0 || r.consumed == 0 {
                        self.book.push(n);
                    } else {
                        self.book.insert(0, n);
                    }
                }
            }
        }
    }

    fn target(&mut self) -> IdS {
        // resting id (mostly), an id that has left, or a never-seen id
        let r = self.w.below(10);
        if r < 7 && !self.book.is_empty() {
            let i = if self.w.chance(1, 2) {
                0
            } else {
                self.w.below(self.book.len() as u64) as usize
            };
            self.book[i].id
        } else if r < 9 && !self.gone.is_empty() {
            *self.w.pick(&self.gone.clone())
        } else {
            IdS {
                ulid: self.w.chance(1, 2),
                v: 0xdead_0000 + self.w.below(4) as u128,
            }
        }
    }

    fn match_qty(&mut self) -> u64 {
        let disp: u128 = self.book.iter().map(|o| o.vis as u128).sum();
        let all: u128 = self
            .book
            .iter()
            .map(|o| o.vis as u128 + o.hid as u128)
            .sum();
        let front = self.book.first().map(|o| o.vis).unwrap_or(1);
        let q: u128 = match self.w.below(12) {
            0 => 1,
            1 => front as u128,
            2 => front.saturating_sub(1).max(1) as u128,
            3 => front as u128 + 1,
            4 => disp,
            5 => all,
            6 => all * 2 + 1,
            7 => disp + 1,
            8 if self.zero => 0,
            _ => {
                let hi = (all.min(u64::MAX as u128 / 4) as u64).max(2);
                1 + self.w.below(hi) as u128
            }
        };
        q.min(u64::MAX as u128 / 2).max(if self.zero { 0 } else { 1 }) as u64
    }

    fn amend_qty(&mut self, id: IdS) -> u64 {
        let cur = self
            .book
            .iter()
            .find(|o| o.id == id)
            .map(|o| o.vis)
            .unwrap_or(5);
        let q = match self.w.below(8) {
            0 if self.zero => 0,
            0 | 1 => 1,
            2 => cur.saturating_sub(1).max(1),
            3 => cur,
            4 => cur.saturating_add(1),
            5 => cur.saturating_add(1 + self.w.below(10)),
            _ => 1 + self.w.below(14),
        };
        // amendments supply quantity too
        let extra = (q as u128).saturating_sub(cur as u128);
        if extra > self.room() { cur.max(1) } else { q }
    }
}

pub fn gen_history(seed: u64, p: &Profile) -> History {
    let mut g = Gen::new(seed, p);
    let deep = crate::driver::DEEP.load(std::sync::atomic::Ordering::Relaxed) && g.k.chance(1, 10);
    let max_ops = if deep {
        3 * p.max_ops.max(1) as u64
    } else {
        p.max_ops.max(1) as u64
    };
    let len = if g.k.chance(1, 2) {
        1 + g.k.below(max_ops.min(8))
    } else {
        1 + g.k.below(max_ops)
    } as usize;
    // operation mix: add, match, cancel, amend, move, replace, price+qty, same-price UpdatePrice,
    // read, restore, probe
    let wpool = [0u32, 1, 2, 4];
    let mut wts = [0u32; 11];
    for x in wts.iter_mut() {
        *x = *g.k.pick(&wpool);
    }
    wts[0] = wts[0].max(2) + 2;
    wts[1] = wts[1].max(1) + 1;
    if !p.reads {
        wts[8] = 0;
    }
    if !p.restores {
        wts[9] = 0;
    } else {
        wts[9] = wts[9].min(2);
    }
    if !p.probes {
        wts[10] = 0;
    }
    if p.priority_mix {
        wts[2] += 2;
        wts[3] += 3;
    }
    if p.update_mix {
        for i in 2..8 {
            wts[i] += 1;
        }
    }
    let readd_bias = p.priority_mix || g.k.chance(1, 3);
    let mut ops: Vec<Op> = Vec::with_capacity(len + 1);
    // "head-lane stress" (a share of the zero-quantity runs): the book starts with several orders
    // that display nothing, followed by ordinary ones; the history then alternates small matches
    // (partial fills), amendments that give a silent order a display or take it away again,
    // and the odd cancel / re-add - the states in which several orders are handed back to the
    // head of the queue in one call and have to keep their relative places
    let lane_stress = g.zero && g.k.chance(1, 4);
    if lane_stress {
        // now and then more silent orders than any batch or chunk size in sight
        let silent = if g.k.chance(1, 12) {
            31 + g.k.below(40) as usize
        } else {
            2 + g.k.below(3) as usize
        };
        let loud = 1 + g.k.below(3) as usize;
        for i in 0..silent + loud {
            let id = g.fresh_id();
            let mut o = g.order(id);
            // the kind is overridden below: clear every type-specific field first
            o.p1 = 0;
            o.p2 = 0;
            o.p2_some = false;
            o.auto = false;
            o.off = 0;
            o.peg = 0;
            o.hid = 0;
            if i < silent {
                o.kind = if g.w.chance(3, 4) { Kind::Iceberg } else { Kind::Reserve };
                o.vis = 0;
                o.hid = 1 + g.w.below(9);
                if o.kind == Kind::Reserve {
                    o.auto = true;
                    o.p2_some = true;
                    o.p2 = 0; // a reserve that cannot replenish
                }
            } else {
                o.kind = *g.w.pick(&[Kind::Standard, Kind::Iceberg, Kind::PostOnly]);
                o.vis = 2 + g.w.below(8);
                o.hid = if o.kind == Kind::Iceberg { g.w.below(6) } else { 0 };
            }
            o.price = g.price;
            g.book_add(o);
            ops.push(Op::Add(o));
        }
        wts = [1, 6, 1, 6, 0, 1, 1, 0, wts[8].min(1), 0, 0];
    }
    // scale (a small share of the runs, because they cost 10-30 times an ordinary run):
    // "big book" - tens to hundreds of orders resting at once, so that shard, queue-segment and
    // batch boundaries are crossed and one match sweeps many makers; "long history" - hundreds
    // of operations on a handful of orders, so that the same order is amended, partially filled,
    // replenished and handed back many times and every counter passes 255 / 256
    let sc = g.k.below(64);
    let size_pick = *g.k.pick(&[17usize, 20, 33, 33, 40, 65, 65, 130, 260]);
    let long_pick = *g.k.pick(&[150usize, 300, 300, 600, 1000]);
    let big = !lane_stress && sc < 2;
    let long = !lane_stress && (sc == 2 || sc == 3);
    let mut len = len;
    if big {
        g.book_cap = size_pick + 8;
        len = len.max(size_pick + 4) + g.k.below(24) as usize;
    }
    if long {
        g.book_cap = 2 + g.k.below(4) as usize;
        len = long_pick;
        wts[0] += 2;
        wts[1] += 2;
        wts[2] = wts[2].max(1);
        wts[3] = wts[3].max(2);
        wts[9] = wts[9].min(1);
    }
    // a few adds up front so that there is a book to work on
    let pre = if lane_stress {
        0
    } else if big {
        size_pick
    } else {
        g.k.below(5) as usize
    };
    for _ in 0..pre.min(len) {
        let id = g.fresh_id();
        let o = g.order(id);
        g.book_add(o);
        ops.push(Op::Add(o));
    }
    let len = if lane_stress { len.max(ops.len() + 6) } else { len };
    // long histories: at some point a run of orders that are added and cancelled at once, so
    // that a long row of dead tickets (33 ... 1030) lies between the live orders of the queue
    // (half of the marathons trade each order away instead of cancelling it: 66 000 matches and
    // transactions rather than 66 000 dead tickets)
    let mut marathon_trades = false;
    let mut stale_run: Option<(usize, usize)> = if long && g.k.chance(1, 2) {
        // (about one such history in eight hundred is a marathon: 66 000 pairs, past every
        // 16-bit counter)
        let marathon = g.k.chance(1, 800);
        marathon_trades = marathon && g.k.chance(1, 2);
        Some((
            ops.len() + g.k.below(12) as usize,
            if marathon {
                66_000
            } else {
                *g.k.pick(&[33usize, 40, 64, 70, 130, 260, 520, 1030])
            },
        ))
    } else {
        None
    };
    while ops.len() < len {
        if let Some((at, r)) = stale_run {
            if ops.len() >= at {
                stale_run = None;
                for _ in 0..r {
                    let id = g.fresh_id();
                    let mut o = g.order(id);
                    o.vis = o.vis.min(3);
                    o.hid = o.hid.min(3);
                    if marathon_trades {
                        // plain quantities, so that nothing silent piles up over 66 000 rounds
                        o.vis = o.vis.max(1);
                        o.hid = 0;
                    }
                    if g.book.len() > g.book_cap + 8 {
                        break;
                    }
                    g.book_add(o);
                    ops.push(Op::Add(o));
                    if marathon_trades {
                        let qty = o.vis;
                        let before = g.gone.len();
                        g.book_match(qty);
                        g.gone.truncate(before);
                        ops.push(Op::Match {
                            qty,
                            taker: IdS {
                                ulid: false,
                                v: 0x7a6b_ffff,
                            },
                        });
                        continue;
                    }
                    g.book_remove(id);
                    g.gone.pop();
                    ops.push(Op::Upd(UpdSpec {
                        kind: UpdKind::Cancel,
                        id,
                        price: 0,
                        qty: 0,
                        buy: false,
                    }));
                }
                let id = g.fresh_id();
                let o = g.order(id);
                g.book_add(o);
                ops.push(Op::Add(o));
                continue;
            }
        }
        let which = g.w.weighted(&wts);
        match which {
            0 => {
                let id = if readd_bias && !g.gone.is_empty() && g.w.chance(1, 3) {
                    let id = *g.w.pick(&g.gone.clone());
                    if g.book.iter().any(|o| o.id == id) { g.fresh_id() } else { id }
                } else {
                    g.fresh_id()
                };
                if g.book.len() >= g.book_cap || g.room() < 2 {
                    continue;
                }
                let o = g.order(id);
                g.book_add(o);
                ops.push(Op::Add(o));
            }
            1 => {
                let qty = if (lane_stress || long) && g.w.chance(3, 4) {
                    1 + g.w.below(3)
                } else {
                    g.match_qty()
                };
                let mut taker = IdS {
                    ulid: g.w.chance(1, 2),
                    v: 0x7a6b_0000 + g.w.below(1000) as u128,
                };
                // now and then the taker carries the id of an order that rests here or did
                if g.w.chance(1, 16) {
                    if let Some(o) = g.book.first() {
                        taker = o.id;
                    }
                } else if g.w.chance(1, 32) && !g.gone.is_empty() {
                    taker = *g.w.pick(&g.gone.clone());
                }
                g.book_match(qty);
                ops.push(Op::Match { qty, taker });
            }
            2 => {
                let id = g.target();
                g.book_remove(id);
                ops.push(Op::Upd(UpdSpec {
                    kind: UpdKind::Cancel,
                    id,
                    price: 0,
                    qty: 0,
                    buy: false,
                }));
            }
            3 | 5 | 6 => {
                let id = g.target();
                let same = g.w.chance(3, 4);
                let kind = match which {
                    3 => UpdKind::Qty,
                    5 => UpdKind::Replace,
                    _ => UpdKind::PriceQty,
                };
                let price = if same || kind == UpdKind::Qty {
                    g.price
                } else {
                    g.price + 1 + g.w.below(3)
                };
                let qty = if lane_stress {
                    *g.w.pick(&[0u64, 0, 1, 2, 3, 5])
                } else {
                    g.amend_qty(id)
                };
                let u = UpdSpec {
                    kind,
                    id,
                    price,
                    qty,
                    buy: g.w.chance(1, 2),
                };
                if u.removes(g.price) {
                    g.book_remove(id);
                } else if let Some(o) = g.book.iter_mut().find(|o| o.id == id) {
                    if matches!(o.kind, Kind::Standard | Kind::PostOnly | Kind::Iceberg) {
                        let extra = (qty as u128).saturating_sub(o.vis as u128);
                        o.vis = qty;
                        g.supplied += extra;
                    }
                }
                ops.push(Op::Upd(u));
            }
            4 | 7 => {
                let id = g.target();
                let price = if which == 7 {
                    g.price
                } else {
                    g.price + 1 + g.w.below(3)
                };
                if price != g.price {
                    g.book_remove(id);
                }
                ops.push(Op::Upd(UpdSpec {
                    kind: UpdKind::Price,
                    id,
                    price,
                    qty: 0,
                    buy: false,
                }));
            }
            8 => ops.push(Op::Read(g.w.below(N_READS as u64) as u8)),
            9 => {
                let lie = if g.f.chance(1, 2) {
                    0
                } else {
                    1 + g.f.below(crate::seq::N_LIES as u64) as u8
                };
                ops.push(Op::Restore {
                    path: g.f.below(N_RESTORE_PATHS as u64) as u8,
                    lie,
                });
            }
            _ => ops.push(Op::Probe),
        }
    }
    if p.final_drain {
        ops.push(Op::Match {
            qty: u64::MAX / 2,
            taker: IdS {
                ulid: false,
                v: 0xd4a1,
            },
        });
    }
    // clock faults
    let mut clock = ClockCfg {
        base: 1_700_000_000_000,
        tick: *g.k.pick(&[0u64, 1, 1, 7, 1000]),
        jumps: vec![],
    };
    if g.f.chance(1, 2) {
        let n = 1 + g.f.below(3);
        for _ in 0..n {
            let at = g.f.below(120);
            let v = match g.f.below(5) {
                0 => 0,
                1 => u64::MAX - g.f.below(50),
                2 => clock.base - 3_600_000,
                3 => clock.base + 86_400_000,
                _ => g.f.next(),
            };
            clock.jumps.push((at, v));
        }
    }
    let knobs = Knobs {
        price: g.price,
        hash_seed: g.k.next(),
        shards: *g.k.pick(&[2usize, 4, 16, 64]),
        clock,
        zero: g.zero,
        offprice: g.offprice,
        namespace: if g.k.chance(1, 2) {
            0x6ba7b8109dad11d180b400c04fd430c8
        } else {
            g.k.u128()
        },
        // in a third of the runs the caller keeps the handles it is given
        hold: g.k.chance(1, 3),
    };
    History { knobs, ops }
}
