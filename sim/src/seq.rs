//! Engine S — sequential histories with crash/restore, executed against the real
//! `PriceLevel` under the step-budget / clock / hasher seams, with monitors for
//! C01 C02 C04 C05 C06 C07 C10 C15 evaluated after every operation.

use crate::core::{ClockCfg, Fail, Installed, SeqHooks, guarded};
use crate::model::{self, max_visits, rule, same_content, same_identity, specs, sum_hid, sum_vis};
use crate::prng::Digest;
use crate::spec::*;
use pricelevel::verif::exports::PriceLevelSnapshotPackage;
use pricelevel::verif::muted;
use pricelevel::{
    MatchResult, OrderType, PriceLevel, PriceLevelData, PriceLevelSnapshot, UuidGenerator,
};
use serde::{Deserialize, Serialize};
use std::collections::{BTreeMap, BTreeSet};
use std::str::FromStr;
use std::sync::Arc;
use uuid::Uuid;

#[derive(Clone, Debug, PartialEq, Serialize, Deserialize)]
pub struct Knobs {
    pub price: u64,
    pub hash_seed: u64,
    pub shards: usize,
    #[serde(default)]
    pub clock: ClockCfg,
    /// zero quantities may occur (C06 mode): per-visit tracking and C04/C15 monitors are off
    #[serde(default)]
    pub zero: bool,
    /// some orders carry a price different from the level's
    #[serde(default)]
    pub offprice: bool,
    #[serde(with = "hex128")]
    pub namespace: u128,
    /// the caller keeps what it is handed (the `Arc` returned by `add_order`, listings,
    /// snapshots) alive for the rest of the history instead of dropping it at once
    #[serde(default)]
    pub hold: bool,
}

pub mod hex128 {
    use serde::{Deserialize, Deserializer, Serializer};
    pub fn serialize<S: Serializer>(v: &u128, s: S) -> Result<S::Ok, S::Error> {
        s.serialize_str(&format!("{v:032x}"))
    }
    pub fn deserialize<'de, D: Deserializer<'de>>(d: D) -> Result<u128, D::Error> {
        let s = String::deserialize(d)?;
        u128::from_str_radix(&s, 16).map_err(serde::de::Error::custom)
    }
}

impl Default for Knobs {
    fn default() -> Self {
        Knobs {
            price: 100,
            hash_seed: 1,
            shards: 4,
            clock: ClockCfg::default(),
            zero: false,
            offprice: false,
            namespace: 0x6ba7b8109dad11d180b400c04fd430c8,
            hold: false,
        }
    }
}

#[derive(Clone, Debug, PartialEq, Serialize, Deserialize)]
pub struct History {
    pub knobs: Knobs,
    pub ops: Vec<Op>,
}

#[derive(Clone, Debug, PartialEq, Eq, Serialize, Deserialize)]
pub struct Violation {
    pub prop: String,
    pub sig: String,
    /// index of the operation at which it was observed
    pub at: usize,
    pub detail: String,
}

pub type Probes = BTreeMap<&'static str, u64>;

#[derive(Default, Debug)]
pub struct Outcome {
    pub violations: Vec<Violation>,
    pub digest: u64,
    pub probes: Probes,
    pub steps: u64,
    pub clock_ms: u64,
    pub clock_jumps: u64,
    pub ops_run: u64,
    /// canonical responses of the mutating operations (twin comparison, C07)
    pub responses: Vec<String>,
    /// index of the operation each response belongs to
    pub resp_ops: Vec<usize>,
    pub final_state: String,
    /// the run was cut short by a budget overrun / panic at this op
    pub aborted_at: Option<usize>,
}

fn bump(p: &mut Probes, k: &'static str) {
    *p.entry(k).or_insert(0) += 1;
}

struct Run<'a> {
    h: &'a History,
    hooks: Arc<SeqHooks>,
    level: PriceLevel,
    generator: UuidGenerator,
    lp: u64,
    listing: Vec<OrderSpec>,
    out: Outcome,
    dg: Digest,
    // C04
    stamps: BTreeMap<IdS, u64>,
    next_stamp: u64,
    stamps_valid: bool,
    /// upper bound on the queue tickets issued so far (dead ones have to be skipped by a match)
    tickets_issued: u64,
    /// handles kept alive on purpose (knob `hold`)
    held: Vec<std::sync::Arc<Order>>,
    cancelled_once: BTreeSet<IdS>,
    // C02 ledger: supplied, traded
    ledger: BTreeMap<IdS, (i128, i128)>,
    txids: BTreeSet<Uuid>,
    // C15 (deltas since construction of the current level object)
    base_stats: [u128; 4],
    exp_stats: [u128; 4],
    all_at_level_price: bool,
}

pub fn canon_match(r: &MatchResult) -> String {
    let mut s = format!(
        "M rem={} complete={} taker={} filled=[",
        r.remaining_quantity,
        r.is_complete,
        IdS::of(r.order_id).short()
    );
    for f in &r.filled_order_ids {
        s.push_str(&IdS::of(*f).short());
        s.push(',');
    }
    s.push_str("] tx=[");
    for t in r.transactions.as_vec() {
        s.push_str(&format!(
            "({} {} @{} t{} {:?} {}),",
            IdS::of(t.maker_order_id).short(),
            t.quantity,
            t.price,
            IdS::of(t.taker_order_id).short(),
            t.taker_side,
            t.transaction_id
        ));
    }
    s.push(']');
    s
}

pub fn read_listing(level: &PriceLevel) -> Vec<OrderSpec> {
    muted(|| {
        level
            .iter_orders()
            .iter()
            .map(|a| OrderSpec::of(a))
            .collect()
    })
}

pub fn read_aggs(level: &PriceLevel) -> (u64, u64, usize) {
    muted(|| {
        (
            level.visible_quantity(),
            level.hidden_quantity(),
            level.order_count(),
        )
    })
}

fn read_stats(level: &PriceLevel) -> [u128; 4] {
    muted(|| {
        let s = level.stats();
        [
            s.orders_added() as u128,
            s.orders_removed() as u128,
            s.quantity_executed() as u128,
            s.value_executed() as u128,
        ]
    })
}

pub fn state_string(level: &PriceLevel) -> String {
    let l = read_listing(level);
    let (v, h, c) = read_aggs(level);
    let mut s = format!("agg=({v},{h},{c}) [");
    let mut l2 = l.clone();
    l2.sort_by_key(|o| o.id);
    for o in &l2 {
        s.push_str(&o.brief());
        s.push(';');
    }
    s.push(']');
    s
}

impl<'a> Run<'a> {
    fn viol(&mut self, prop: &str, sig: &str, at: usize, detail: String) {
        // keep the first violation per (prop, sig) of a run
        if self
            .out
            .violations
            .iter()
            .any(|v| v.prop == prop && v.sig == format!("{prop}/{sig}"))
        {
            return;
        }
        self.out.violations.push(Violation {
            prop: prop.to_string(),
            sig: format!("{prop}/{sig}"),
            at,
            detail,
        });
    }

    fn fresh_stamp(&mut self, id: IdS) {
        self.next_stamp += 1;
        self.stamps.insert(id, self.next_stamp);
    }

    /// C01 + C10(listing shape) after every operation.
    fn check_state(&mut self, at: usize, what: &str) {
        let l = read_listing(&self.level);
        let (v, h, c) = read_aggs(&self.level);
        let sv = sum_vis(&l);
        let sh = sum_hid(&l);
        if v as u128 != sv || h as u128 != sh || c != l.len() {
            self.viol(
                "C01",
                "aggregate-mismatch",
                at,
                format!(
                    "after {what}: visible={v} hidden={h} count={c} but listing sums visible={sv} hidden={sh} count={}",
                    l.len()
                ),
            );
        }
        // total = visible + hidden (may overflow-panic if a counter wrapped)
        match guarded(|| muted(|| self.level.total_quantity())) {
            Ok(t) => {
                if t as u128 != v as u128 + h as u128 {
                    self.viol(
                        "C01",
                        "total-mismatch",
                        at,
                        format!("after {what}: total={t} visible={v} hidden={h}"),
                    );
                }
            }
            Err(f) => self.viol(
                "C01",
                "total-panics",
                at,
                format!("after {what}: total_quantity {}", f.brief()),
            ),
        }
        // listing: each id once, timestamps non-decreasing (C10)
        let mut ids = BTreeSet::new();
        let mut dup = false;
        for o in &l {
            if !ids.insert(o.id) {
                dup = true;
            }
        }
        if dup {
            self.viol(
                "C10",
                "listing-duplicate",
                at,
                format!("after {what}: an id is listed twice"),
            );
        }
        if l.windows(2).any(|w| w[0].ts > w[1].ts) {
            self.viol(
                "C10",
                "listing-unsorted",
                at,
                format!("after {what}: listing timestamps decrease"),
            );
        }
        // an empty book has no order to be ahead of another: the priority monitor may start over
        if l.is_empty() && !self.stamps_valid {
            self.stamps.clear();
            self.stamps_valid = true;
        }
        // C15
        if !self.h.knobs.zero {
            let s = read_stats(&self.level);
            let names = [
                "orders_added",
                "orders_removed",
                "quantity_executed",
                "value_executed",
            ];
            for i in 0..4 {
                if i == 3 && !self.all_at_level_price {
                    continue;
                }
                let delta = s[i].wrapping_sub(self.base_stats[i]);
                if delta != self.exp_stats[i] {
                    self.viol(
                        "C15",
                        names[i],
                        at,
                        format!(
                            "after {what}: statistics {} moved by {delta} since construction, events say {}",
                            names[i], self.exp_stats[i]
                        ),
                    );
                }
            }
        }
        for o in &l {
            self.dg.u64(o.id.v as u64);
            self.dg.u64(o.vis);
            self.dg.u64(o.hid);
        }
        self.dg.u64(v);
        self.dg.u64(h);
        self.listing = l;
    }

    fn rebase_stats(&mut self) {
        self.base_stats = read_stats(&self.level);
        self.exp_stats = [0; 4];
    }

    fn by_id(&self) -> BTreeMap<IdS, OrderSpec> {
        self.listing.iter().map(|o| (o.id, *o)).collect()
    }

    fn op_add(&mut self, at: usize, o: &OrderSpec) {
        let before = self.by_id();
        if before.contains_key(&o.id) {
            bump(&mut self.out.probes, "skipped_add_resting_id");
            return;
        }
        if self.cancelled_once.contains(&o.id) {
            bump(&mut self.out.probes, "readd_of_cancelled_id");
        }
        // reach of the scale / corner-value modes of the generator
        match before.len() {
            16 => bump(&mut self.out.probes, "book_grew_past_16_orders"),
            64 => bump(&mut self.out.probes, "book_grew_past_64_orders"),
            256 => bump(&mut self.out.probes, "book_grew_past_256_orders"),
            _ => {}
        }
        if o.id.v == 0 || o.id.v == u128::MAX {
            bump(&mut self.out.probes, "nil_or_all_ones_id_added");
        }
        if before.keys().any(|k| k.v == o.id.v && k.ulid != o.id.ulid) {
            bump(&mut self.out.probes, "uuid_and_ulid_with_same_bits_resting");
        }
        let lib = o.to_lib();
        self.tickets_issued += 1;
        self.hooks.begin_op(64 * 16);
        let r = guarded(|| self.level.add_order(lib));
        self.hooks.end_op();
        self.out.responses.push("A".into());
        self.out.resp_ops.push(at);
        match r {
            Err(f) => {
                self.viol("C01", "add-fails", at, format!("add_order {}", f.brief()));
                self.out.aborted_at = Some(at);
                return;
            }
            Ok(a) => {
                if self.h.knobs.hold && self.held.len() < 4096 {
                    self.held.push(a);
                    bump(&mut self.out.probes, "handle_kept_alive");
                }
            }
        }
        if o.price != self.lp {
            self.all_at_level_price = false;
        }
        self.ledger
            .insert(o.id, (o.vis as i128 + o.hid as i128, 0));
        self.fresh_stamp(o.id);
        self.exp_stats[0] += 1;
        self.check_state(at, "add");
        // frame: listing == before + o
        let after = self.by_id();
        let mut exp = before;
        exp.insert(o.id, *o);
        if after != exp {
            self.viol(
                "C10",
                "add-listing",
                at,
                format!(
                    "after add of {}: listing is not the previous listing plus that order",
                    o.brief()
                ),
            );
        }
        if o.vis == 0 {
            bump(&mut self.out.probes, "zero_display_added");
        }
    }

    fn op_match(&mut self, at: usize, qty: u64, taker: IdS) {
        let before_list = self.listing.clone();
        let before = self.by_id();
        let n = before_list.len() as u64;
        // hard cap: a state outside the generator's bounded-rounds precondition (reachable only
        // through a defect elsewhere) must not turn into an unbounded run
        // ... plus the dead tickets a match may have to step over: at most one per ticket issued
        let budget = (64 * (max_visits(&before_list).min(1 << 40) + n + 8)).min(300_000)
            + 8 * self.tickets_issued.min(100_000);
        // every visit may hand an order back (a new ticket)
        self.tickets_issued += max_visits(&before_list).min(1 << 20) + n + 2;
        self.hooks.begin_op(budget);
        if before.contains_key(&taker) {
            bump(&mut self.out.probes, "taker_id_is_a_resting_maker");
        }
        if self.lp == 0 {
            bump(&mut self.out.probes, "match_at_price_zero");
        }
        let taker_lib = taker.to_lib();
        let r = guarded(|| self.level.match_order(qty, taker_lib, &self.generator));
        let used = self.hooks.end_op();
        let res = match r {
            Ok(r) => r,
            Err(f) => {
                let sig = match f {
                    Fail::Budget => "no-return",
                    Fail::Panic(_) => "match-panics",
                };
                let d = format!(
                    "match_order({qty}) {} (budget {budget} steps, {} resting orders: {})",
                    f.brief(),
                    n,
                    before_list
                        .iter()
                        .map(|o| o.brief())
                        .collect::<Vec<_>>()
                        .join(" | ")
                );
                self.viol("C06", sig, at, d.clone());
                if matches!(f, Fail::Panic(_)) {
                    self.viol("C02", "match-panics", at, d.clone());
                    self.viol("C01", "match-panics", at, d);
                }
                self.out.responses.push(format!("M-FAIL {sig}"));
                self.out.resp_ops.push(at);
                self.out.aborted_at = Some(at);
                return;
            }
        };
        let _ = used;
        let canon = canon_match(&res);
        self.dg.str(&canon);
        self.out.responses.push(canon);
        self.out.resp_ops.push(at);

        let txs = res.transactions.as_vec().clone();
        // ---- C02 arithmetic
        let executed: u128 = txs.iter().map(|t| t.quantity as u128).sum();
        if executed + res.remaining_quantity as u128 != qty as u128 {
            self.viol(
                "C02",
                "executed-plus-remaining",
                at,
                format!(
                    "match({qty}): executed {executed} + remaining {} != requested",
                    res.remaining_quantity
                ),
            );
        }
        if res.is_complete != (res.remaining_quantity == 0) {
            self.viol(
                "C02",
                "is-complete",
                at,
                format!(
                    "match({qty}): is_complete={} remaining={}",
                    res.is_complete, res.remaining_quantity
                ),
            );
        }
        match guarded(|| res.executed_quantity()) {
            Ok(e) if e as u128 == executed => {}
            other => self.viol(
                "C02",
                "executed-quantity",
                at,
                format!("executed_quantity() = {other:?}, sum of transactions = {executed}"),
            ),
        }
        if res.order_id != taker_lib {
            self.viol("C02", "taker-id", at, "result.order_id is not the taker".into());
        }
        let mut traded_here: BTreeMap<IdS, u128> = BTreeMap::new();
        for t in &txs {
            let m = IdS::of(t.maker_order_id);
            if t.quantity == 0 {
                self.viol("C02", "zero-quantity-tx", at, format!("transaction with quantity 0 against {}", m.short()));
            }
            if t.price != self.lp {
                self.viol(
                    "C02",
                    "tx-price",
                    at,
                    format!("transaction price {} != level price {}", t.price, self.lp),
                );
            }
            if t.taker_order_id != taker_lib {
                self.viol("C02", "tx-taker", at, "transaction taker id is not the given one".into());
            }
            match before.get(&m) {
                None => {
                    self.viol(
                        "C02",
                        "maker-not-resting",
                        at,
                        format!("maker {} was not resting before the match", m.short()),
                    );
                    if self.cancelled_once.contains(&m) {
                        self.viol(
                            "C07",
                            "removed-order-traded",
                            at,
                            format!(
                                "{} was cancelled / moved away earlier and not added again, yet it trades",
                                m.short()
                            ),
                        );
                    }
                }
                Some(o) => {
                    if t.taker_side != opposite(side_of(o.buy)) {
                        self.viol(
                            "C02",
                            "tx-side",
                            at,
                            format!("taker side {:?} is not opposite to maker side", t.taker_side),
                        );
                    }
                }
            }
            if !self.txids.insert(t.transaction_id) {
                self.viol(
                    "C02",
                    "tx-id-reused",
                    at,
                    format!("transaction id {} issued before", t.transaction_id),
                );
            }
            *traded_here.entry(m).or_insert(0) += t.quantity as u128;
            if let Some(e) = self.ledger.get_mut(&m) {
                e.1 += t.quantity as i128;
                if e.1 > e.0 {
                    let (s, tr) = *e;
                    self.viol(
                        "C02",
                        "over-fill",
                        at,
                        format!(
                            "order {} has traded {tr} in total but supplied only {s}",
                            m.short()
                        ),
                    );
                }
            }
            self.exp_stats[2] += t.quantity as u128;
            self.exp_stats[3] += t.quantity as u128 * self.lp as u128;
        }
        if txs.len() > 1 {
            bump(&mut self.out.probes, "match_multi_tx");
        }

        // ---- state after
        self.check_state(at, "match");
        let after = self.by_id();

        // filled ids == makers that traded in this call and are absent afterwards
        let mut exp_filled: BTreeSet<IdS> = BTreeSet::new();
        for m in traded_here.keys() {
            if !after.contains_key(m) {
                exp_filled.insert(*m);
            }
        }
        let got: Vec<IdS> = res.filled_order_ids.iter().map(|i| IdS::of(*i)).collect();
        let got_set: BTreeSet<IdS> = got.iter().cloned().collect();
        if got_set.len() != got.len() || got_set != exp_filled {
            self.viol(
                "C02",
                "filled-ids",
                at,
                format!(
                    "filled_order_ids {:?} but makers that traded and left: {:?}",
                    got.iter().map(|i| i.short()).collect::<Vec<_>>(),
                    exp_filled.iter().map(|i| i.short()).collect::<Vec<_>>()
                ),
            );
        }

        // ---- C06 post-conditions
        let disp_before: u128 = sum_vis(&before_list);
        if res.remaining_quantity > 0 {
            if let Some(o) = self.listing.iter().find(|o| o.vis > 0) {
                let d = format!(
                    "match({qty}) returned with remaining {} while {} still displays {}",
                    res.remaining_quantity,
                    o.id.short(),
                    o.vis
                );
                self.viol("C06", "liquidity-left", at, d);
            }
        }
        if executed < (qty as u128).min(disp_before) {
            self.viol(
                "C06",
                "under-executed",
                at,
                format!(
                    "match({qty}) executed {executed} but {disp_before} was displayed at the start"
                ),
            );
        }

        // ---- C05 seen through match_order: whatever the visiting order, a match executes
        // min(requested, everything the resting orders can ever display under the rule)
        let matchable: u128 = before_list.iter().map(|o| model::matchable(o) as u128).sum();
        if executed != (qty as u128).min(matchable) {
            self.viol(
                "C05",
                "match-total",
                at,
                format!(
                    "match({qty}) executed {executed}, but by the per-order rules the resting orders can trade {matchable} in total (displayed + replenishable): {}",
                    before_list.iter().map(|o| o.brief()).collect::<Vec<_>>().join(" | ")
                ),
            );
        }

        // ---- per-visit tracking (C05 through match_order, C04), zero-free mode only
        if !self.h.knobs.zero {
            let mut cur = before.clone();
            let mut remaining = qty;
            let mut ok = true;
            for (k, t) in txs.iter().enumerate() {
                let m = IdS::of(t.maker_order_id);
                let Some(o) = cur.get(&m).cloned() else {
                    ok = false;
                    break;
                };
                let ro = rule(&o, remaining);
                if ro.consumed != t.quantity {
                    self.viol(
                        "C05",
                        "consumed",
                        at,
                        format!(
                            "tx {k}: {} with incoming {remaining} traded {} but the rule consumes {}",
                            o.brief(),
                            t.quantity,
                            ro.consumed
                        ),
                    );
                    ok = false;
                    break;
                }
                // C04: nobody earlier with displayed quantity is waiting
                if self.stamps_valid {
                    if let Some(sb) = self.stamps.get(&m).cloned() {
                        let mut worst: Option<(IdS, u64)> = None;
                        for (a, oa) in &cur {
                            if *a == m || oa.vis == 0 {
                                continue;
                            }
                            if let Some(sa) = self.stamps.get(a) {
                                if *sa < sb && worst.map(|w| *sa < w.1).unwrap_or(true) {
                                    worst = Some((*a, *sa));
                                }
                            }
                        }
                        if let Some((a, _)) = worst {
                            let oa = cur[&a];
                            self.viol(
                                "C04",
                                "priority-inversion",
                                at,
                                format!(
                                    "tx {k} of match({qty}) trades against {} while earlier-arrived {} still displays {}",
                                    o.brief(),
                                    oa.brief(),
                                    oa.vis
                                ),
                            );
                        }
                    }
                }
                remaining = ro.remaining;
                match ro.next {
                    None => {
                        cur.remove(&m);
                        self.stamps.remove(&m);
                        if ro.discarded > 0 {
                            bump(&mut self.out.probes, "reserve_hidden_discarded");
                        }
                    }
                    Some(nx) => {
                        if ro.moved > 0 {
                            bump(&mut self.out.probes, "replenished");
                            self.fresh_stamp(m);
                        } else {
                            bump(&mut self.out.probes, "partial_fill");
                            if cur.len() > 1 {
                                bump(&mut self.out.probes, "partial_fill_with_others");
                            }
                        }
                        cur.insert(m, nx);
                    }
                }
            }
            if ok {
                if remaining != res.remaining_quantity {
                    // already reported by C02 arithmetic if inconsistent
                }
                if after != cur {
                    // find first differing order
                    let mut detail = String::new();
                    for (id, o) in &cur {
                        match after.get(id) {
                            Some(x) if x == o => {}
                            Some(x) => {
                                detail = format!(
                                    "{} should now be {} but rests as {}",
                                    id.short(),
                                    o.brief(),
                                    x.brief()
                                );
                                break;
                            }
                            None => {
                                detail =
                                    format!("{} should still rest as {}", id.short(), o.brief());
                                break;
                            }
                        }
                    }
                    if detail.is_empty() {
                        for id in after.keys() {
                            if !cur.contains_key(id) {
                                detail = format!("{} should have left the book", id.short());
                                break;
                            }
                        }
                    }
                    self.viol(
                        "C05",
                        "state-after-match",
                        at,
                        format!("after match({qty}): {detail}"),
                    );
                }
            }
            // drop stamps of orders no longer resting
            let ids: Vec<IdS> = self.stamps.keys().cloned().collect();
            for id in ids {
                if !after.contains_key(&id) {
                    self.stamps.remove(&id);
                }
            }
        }
        // ---- zero-display orders present or possible: per-visit observation is impossible (a
        // visit that consumes nothing leaves no transaction), so the whole match is predicted by
        // the specification model — visit in arrival (stamp) order, apply the A.3 rule, an order
        // that can neither trade nor replenish is passed over and keeps its place, a replenished
        // order goes to the back — and compared with what was observed
        if self.h.knobs.zero && self.stamps_valid {
            let mut cur = before.clone();
            let mut remaining = qty;
            let mut aside: BTreeSet<IdS> = BTreeSet::new();
            let mut pred: Vec<(IdS, u64)> = vec![];
            let mut guard = 0u32;
            while remaining > 0 && guard < 100_000 {
                guard += 1;
                let next = cur
                    .keys()
                    .filter(|id| !aside.contains(*id))
                    .filter_map(|id| self.stamps.get(id).map(|s| (*s, *id)))
                    .min();
                let Some((_, id)) = next else { break };
                let o = cur[&id];
                let ro = rule(&o, remaining);
                if ro.consumed == 0 && ro.moved == 0 && ro.next.is_some() {
                    aside.insert(id);
                    bump(&mut self.out.probes, "spec_model_passed_over_zero_display");
                    continue;
                }
                if ro.consumed > 0 {
                    pred.push((id, ro.consumed));
                }
                remaining = ro.remaining;
                match ro.next {
                    None => {
                        cur.remove(&id);
                        self.stamps.remove(&id);
                    }
                    Some(nx) => {
                        cur.insert(id, nx);
                        if ro.moved > 0 {
                            self.fresh_stamp(id);
                        }
                    }
                }
            }
            let obs: Vec<(IdS, u64)> = txs
                .iter()
                .map(|t| (IdS::of(t.maker_order_id), t.quantity))
                .collect();
            let mut agree = true;
            for k in 0..pred.len().max(obs.len()) {
                match (pred.get(k), obs.get(k)) {
                    (Some(p), Some(o)) if p == o => {}
                    (Some(p), Some(o)) if p.0 != o.0 => {
                        let pa = before.get(&p.0).map(|x| x.brief()).unwrap_or_default();
                        let ob = before.get(&o.0).map(|x| x.brief()).unwrap_or_default();
                        self.viol(
                            "C04",
                            "priority-inversion",
                            at,
                            format!(
                                "tx {k} of match({qty}) trades against {ob} while the earlier-arrived {pa} can trade (displays or replenishes quantity)"
                            ),
                        );
                        agree = false;
                        break;
                    }
                    (p, o) => {
                        self.viol(
                            "C05",
                            "consumed",
                            at,
                            format!(
                                "tx {k} of match({qty}): observed {:?}, the rule applied in arrival order gives {:?}",
                                o.map(|x| (x.0.short(), x.1)),
                                p.map(|x| (x.0.short(), x.1))
                            ),
                        );
                        agree = false;
                        break;
                    }
                }
            }
            if agree && after != cur {
                self.viol(
                    "C05",
                    "state-after-match",
                    at,
                    format!(
                        "after match({qty}) the book is [{}] but the rule applied in arrival order leaves [{}]",
                        after.values().map(|o| o.brief()).collect::<Vec<_>>().join(" | "),
                        cur.values().map(|o| o.brief()).collect::<Vec<_>>().join(" | ")
                    ),
                );
                agree = false;
            }
            if !agree {
                // the model can no longer say where each order stands
                self.stamps_valid = false;
            }
        }
        if self.listing.is_empty() && !before_list.is_empty() {
            bump(&mut self.out.probes, "match_swept_level");
        }
        if self.listing.iter().any(|o| o.vis == 0) {
            bump(&mut self.out.probes, "zero_display_resting_after_match");
        }
    }

    fn op_upd(&mut self, at: usize, u: &UpdSpec) {
        let before = self.by_id();
        let present = before.get(&u.id).cloned();
        let lib = u.to_lib();
        self.tickets_issued += 1;
        self.hooks.begin_op(64 * 24);
        let r = guarded(|| self.level.update_order(lib));
        self.hooks.end_op();
        let r = match r {
            Ok(r) => r,
            Err(f) => {
                self.viol("C07", "update-fails", at, format!("{} {}", u.brief(), f.brief()));
                self.out.responses.push("U-FAIL".into());
                self.out.resp_ops.push(at);
                self.out.aborted_at = Some(at);
                return;
            }
        };
        let canon = match &r {
            Ok(Some(o)) => format!("U Some({})", OrderSpec::of(o).brief()),
            Ok(None) => "U None".to_string(),
            Err(_) => "U Err".to_string(),
        };
        self.dg.str(&canon);
        self.out.responses.push(canon);
        self.out.resp_ops.push(at);

        let same_price_update = u.kind == UpdKind::Price && u.price == self.lp;
        // expected bookkeeping first (so that check_state sees the right expectation)
        if !same_price_update && u.removes(self.lp) && present.is_some() {
            self.exp_stats[1] += 1;
        }
        self.check_state(at, "update");
        let after = self.by_id();

        if same_price_update {
            if r.is_ok() {
                self.viol(
                    "C07",
                    "same-price-accepted",
                    at,
                    "UpdatePrice to the level's own price was not rejected".into(),
                );
            }
            if after != before {
                self.viol(
                    "C07",
                    "rejected-update-had-effect",
                    at,
                    "rejected price update changed the book".into(),
                );
            }
            return;
        }
        if u.removes(self.lp) {
            match (&present, &r) {
                (Some(o), Ok(Some(got))) => {
                    bump(&mut self.out.probes, "remove_present");
                    let g = OrderSpec::of(got);
                    if g != *o {
                        self.viol(
                            "C07",
                            "removed-order-differs",
                            at,
                            format!(
                                "{} returned {} but the book listed {}",
                                u.brief(),
                                g.brief(),
                                o.brief()
                            ),
                        );
                    }
                    let mut exp = before.clone();
                    exp.remove(&u.id);
                    if after != exp {
                        self.viol(
                            "C07",
                            "remove-frame",
                            at,
                            format!(
                                "{}: the book afterwards is not the previous book minus that order",
                                u.brief()
                            ),
                        );
                    }
                    if o.vis + o.hid < o.vis {
                        // unreachable (precondition); keep arithmetic honest
                    }
                    self.stamps.remove(&u.id);
                    self.cancelled_once.insert(u.id);
                    self.ledger.remove(&u.id);
                }
                (Some(o), other) => {
                    let _ = o;
                    self.viol(
                        "C07",
                        "remove-not-found",
                        at,
                        format!(
                            "{} on a resting order answered {}",
                            u.brief(),
                            match other {
                                Ok(None) => "not-found".to_string(),
                                Err(e) => format!("error {e}"),
                                _ => unreachable!(),
                            }
                        ),
                    );
                }
                (None, Ok(None)) => {
                    bump(&mut self.out.probes, "remove_absent");
                    if after != before {
                        self.viol(
                            "C07",
                            "absent-had-effect",
                            at,
                            format!("{} on an unknown id changed the book", u.brief()),
                        );
                    }
                }
                (None, other) => {
                    self.viol(
                        "C07",
                        "absent-not-reported",
                        at,
                        format!(
                            "{} on an unknown id answered {}",
                            u.brief(),
                            if other.is_ok() { "an order" } else { "an error" }
                        ),
                    );
                }
            }
            return;
        }
        if let Some(q) = u.amends(self.lp) {
            match (&present, &r) {
                (Some(o), Ok(Some(got))) => {
                    bump(&mut self.out.probes, "amend_present");
                    let ledger_traded = self.ledger.get(&u.id).map(|e| e.1).unwrap_or(0);
                    if ledger_traded > 0 {
                        bump(&mut self.out.probes, "amend_after_fill");
                    }
                    let g = OrderSpec::of(got);
                    match after.get(&u.id) {
                        Some(n) if *n == g => {}
                        other => self.viol(
                            "C07",
                            "amend-returned-differs",
                            at,
                            format!(
                                "{} returned {} but the book now lists {:?}",
                                u.brief(),
                                g.brief(),
                                other.map(|x| x.brief())
                            ),
                        ),
                    }
                    if !same_identity(&g, o) {
                        self.viol(
                            "C07",
                            "amend-identity",
                            at,
                            format!(
                                "{} changed identity fields: {} -> {}",
                                u.brief(),
                                o.brief(),
                                g.brief()
                            ),
                        );
                    }
                    if matches!(o.kind, Kind::Standard | Kind::PostOnly | Kind::Iceberg) {
                        if g.vis != q {
                            self.viol(
                                "C07",
                                "amend-quantity",
                                at,
                                format!("{} left displayed quantity {}", u.brief(), g.vis),
                            );
                        }
                        if g.hid != o.hid {
                            self.viol(
                                "C07",
                                "amend-hidden",
                                at,
                                format!("{} changed hidden quantity {} -> {}", u.brief(), o.hid, g.hid),
                            );
                        }
                    }
                    // all other orders untouched
                    let mut b2 = before.clone();
                    b2.remove(&u.id);
                    let mut a2 = after.clone();
                    a2.remove(&u.id);
                    if a2 != b2 {
                        self.viol(
                            "C07",
                            "amend-frame",
                            at,
                            format!("{} touched another order", u.brief()),
                        );
                    }
                    if let Some(e) = self.ledger.get_mut(&u.id) {
                        e.0 += (g.vis as i128 + g.hid as i128) - (o.vis as i128 + o.hid as i128);
                    }
                    if g.vis == 0 {
                        bump(&mut self.out.probes, "amended_to_zero_display");
                    }
                }
                (Some(_), other) => {
                    self.viol(
                        "C07",
                        "amend-not-found",
                        at,
                        format!(
                            "{} on a resting order answered {}",
                            u.brief(),
                            match other {
                                Ok(None) => "not-found".to_string(),
                                Err(e) => format!("error {e}"),
                                _ => unreachable!(),
                            }
                        ),
                    );
                }
                (None, Ok(None)) => {
                    bump(&mut self.out.probes, "amend_absent");
                    if after != before {
                        self.viol(
                            "C07",
                            "absent-had-effect",
                            at,
                            format!("{} on an unknown id changed the book", u.brief()),
                        );
                    }
                }
                (None, _) => {
                    self.viol(
                        "C07",
                        "absent-not-reported",
                        at,
                        format!("{} on an unknown id did not answer not-found", u.brief()),
                    );
                }
            }
        }
    }

    fn op_read(&mut self, at: usize, k: u8) {
        let lvl = &self.level;
        let listing = self.listing.clone();
        let keep: std::cell::RefCell<Vec<std::sync::Arc<Order>>> = std::cell::RefCell::new(vec![]);
        self.hooks.begin_op(64 * (listing.len() as u64 * 4 + 64));
        let r: Result<Result<(), String>, Fail> = guarded(|| -> Result<(), String> {
            match k % N_READS {
                0 => {
                    let l = lvl.iter_orders();
                    if l.len() != listing.len() {
                        return Err("iter_orders length differs from listing".into());
                    }
                    keep.borrow_mut().extend(l);
                }
                1 => {
                    let s = lvl.snapshot();
                    keep.borrow_mut().extend(s.orders.iter().cloned());
                    let l: Vec<OrderSpec> = s.orders.iter().map(|a| OrderSpec::of(a)).collect();
                    if s.price != lvl.price()
                        || s.visible_quantity as u128 != sum_vis(&l)
                        || s.hidden_quantity as u128 != sum_hid(&l)
                        || s.order_count != l.len()
                    {
                        return Err(format!(
                            "snapshot aggregates ({},{},{}) disagree with its orders",
                            s.visible_quantity, s.hidden_quantity, s.order_count
                        ));
                    }
                    let _ = s.to_string();
                }
                2 => {
                    let j = lvl.snapshot_to_json().map_err(|e| e.to_string())?;
                    let _ = j.len();
                }
                3 => {
                    let _ = lvl.to_string();
                }
                4 => {
                    let _ = serde_json::to_string(lvl).map_err(|e| e.to_string())?;
                }
                5 => {
                    let s = lvl.stats();
                    let _ = (
                        s.orders_added(),
                        s.orders_removed(),
                        s.orders_executed(),
                        s.quantity_executed(),
                        s.value_executed(),
                        s.average_execution_price(),
                        s.average_waiting_time(),
                        s.time_since_last_execution(),
                    );
                    let _ = s.to_string();
                    let _ = serde_json::to_string(&*s).map_err(|e| e.to_string())?;
                }
                6 => {
                    let d = PriceLevelData::from(lvl);
                    let _ = d.orders.len();
                }
                _ => {
                    let p = lvl.snapshot_package().map_err(|e| e.to_string())?;
                    p.validate().map_err(|e| format!("own package does not validate: {e}"))?;
                    let _ = (lvl.price(), lvl.order_count());
                }
            }
            Ok(())
        });
        self.hooks.end_op();
        if self.h.knobs.hold && self.held.len() < 4096 {
            self.held.extend(keep.into_inner());
        }
        bump(&mut self.out.probes, "read_calls");
        match r {
            Ok(Ok(())) => {}
            Ok(Err(m)) => self.viol("C01", "snapshot-aggregates", at, format!("read {k}: {m}")),
            Err(f) => {
                self.viol("C07", "read-fails", at, format!("read-only call {k} {}", f.brief()));
                self.out.aborted_at = Some(at);
                return;
            }
        }
        let before = self.listing.clone();
        let (bv, bh, bc) = (sum_vis(&before), sum_hid(&before), before.len());
        self.check_state(at, "read");
        if self.listing != before {
            self.viol(
                "C07",
                "read-not-pure",
                at,
                format!("read-only call {k} changed the book"),
            );
        }
        let _ = (bv, bh, bc);
    }

    fn op_probe(&mut self, at: usize) {
        let l = self.listing.clone();
        for o in &l {
            let lib = o.to_lib();
            let qs = [
                0,
                1,
                o.vis.saturating_sub(1),
                o.vis,
                o.vis.saturating_add(1),
                o.vis.saturating_add(o.hid),
                u64::MAX,
            ];
            for q in qs {
                if let Some(d) = check_match_against(&lib, q) {
                    self.viol("C05", "match-against", at, d);
                }
                bump(&mut self.out.probes, "probe_calls");
            }
        }
    }

    fn op_restore(&mut self, at: usize, path: u8, lie: u8) {
        let before = self.listing.clone();
        let lp = self.lp;
        let path = path % N_RESTORE_PATHS;
        let lvl = &self.level;
        self.hooks.begin_op(64 * (before.len() as u64 * 16 + 128));
        let r = guarded(|| rebuild(lvl, path, lie));
        self.hooks.end_op();
        bump(&mut self.out.probes, "restores");
        if lie > 0 {
            bump(&mut self.out.probes, "restores_with_lying_aggregates");
        }
        let new = match r {
            Ok(Ok(l)) => l,
            Ok(Err(m)) => {
                self.viol(
                    "C10",
                    "rebuild-fails",
                    at,
                    format!("rebuild via path {path} (lie {lie}) failed: {m}"),
                );
                self.out.responses.push("R-ERR".into());
                self.out.resp_ops.push(at);
                return;
            }
            Err(f) => {
                self.viol(
                    "C10",
                    "rebuild-fails",
                    at,
                    format!("rebuild via path {path} (lie {lie}) {}", f.brief()),
                );
                self.out.responses.push("R-FAIL".into());
                self.out.resp_ops.push(at);
                self.out.aborted_at = Some(at);
                return;
            }
        };
        self.out.responses.push("R".into());
        self.out.resp_ops.push(at);
        self.level = new;
        self.rebase_stats();
        // paths that re-add orders count them as added; the baseline is read after construction
        // arrival order on the rebuilt level = the order of the list it was built from. Every
        // path lists by timestamp; where the timestamps are strictly increasing that list is
        // unambiguous and the monitor starts a new epoch from it, otherwise (ties: the order
        // among equals is the map's) it stops judging until the book is empty again
        self.stamps.clear();
        if before.windows(2).all(|w| w[0].ts < w[1].ts) {
            for o in &before {
                self.next_stamp += 1;
                self.stamps.insert(o.id, self.next_stamp);
            }
            self.stamps_valid = true;
            bump(&mut self.out.probes, "restamped_after_restore");
        } else {
            self.stamps_valid = false;
        }
        self.check_state(at, "rebuild");
        let got_price = muted(|| self.level.price());
        if got_price != lp {
            self.viol(
                "C10",
                "rebuild-price",
                at,
                format!("path {path}: price {got_price} != {lp}"),
            );
        }
        if !same_content(&before, &self.listing) {
            self.viol(
                "C10",
                "rebuild-content",
                at,
                format!(
                    "path {path} lie {lie}: orders before [{}] after [{}]",
                    before.iter().map(|o| o.brief()).collect::<Vec<_>>().join(" | "),
                    self.listing
                        .iter()
                        .map(|o| o.brief())
                        .collect::<Vec<_>>()
                        .join(" | ")
                ),
            );
        }
        // aggregates derived, not believed: C01's check_state above compares them with the sums;
        // report the same fact under C10 when a lie was injected
        let (v, h, c) = read_aggs(&self.level);
        if v as u128 != sum_vis(&self.listing)
            || h as u128 != sum_hid(&self.listing)
            || c != self.listing.len()
        {
            self.viol(
                "C10",
                "rebuild-aggregates",
                at,
                format!(
                    "path {path} lie {lie}: aggregates ({v},{h},{c}) not derived from the orders"
                ),
            );
        }
    }
}

/// Compare the four outputs of `match_against` with the rule.  `None` = agrees.
pub fn check_match_against(lib: &Order, q: u64) -> Option<String> {
    let o = OrderSpec::of(lib);
    let exp = rule(&o, q);
    let got = guarded(|| lib.match_against(q));
    match got {
        Err(f) => Some(format!("match_against({q}) on {} {}", o.brief(), f.brief())),
        Ok((consumed, next, moved, remaining)) => {
            let next_s = next.as_ref().map(OrderSpec::of);
            if consumed != exp.consumed
                || remaining != exp.remaining
                || moved != exp.moved
                || next_s != exp.next
            {
                Some(format!(
                    "match_against({q}) on {}: got (consumed {consumed}, next {:?}, moved {moved}, remaining {remaining}), rule says (consumed {}, next {:?}, moved {}, remaining {})",
                    o.brief(),
                    next_s.map(|x| x.brief()),
                    exp.consumed,
                    exp.next.map(|x| x.brief()),
                    exp.moved,
                    exp.remaining
                ))
            } else {
                None
            }
        }
    }
}

/// Aggregate corruption ("lying aggregates"): 1 all zero, 2 all +1, 3 all MAX,
/// 4 only visible, 5 only hidden (+7; when the visible figure is odd, visible -7 as well, so that
/// the total is right and only the split is wrong), 6 only the count.
fn lie_vis(lie: u8, v: u64) -> u64 {
    match lie {
        1 => 0,
        2 => v.wrapping_add(1),
        3 => u64::MAX,
        4 => v.wrapping_add(1000),
        // 5 with an odd visible figure: 7 units moved from visible to hidden, the total and the
        // count stay right (figures "captured before a replenishment")
        5 if v % 2 == 1 => v.wrapping_sub(7),
        _ => v,
    }
}
fn lie_hid(lie: u8, v: u64) -> u64 {
    match lie {
        1 => 0,
        2 => v.wrapping_add(1),
        3 => u64::MAX,
        5 => v.wrapping_add(7),
        _ => v,
    }
}
fn lie_cnt(lie: u8, v: u64) -> u64 {
    match lie {
        1 => 0,
        2 | 6 => v.wrapping_add(1),
        3 => u64::MAX,
        _ => v,
    }
}
pub const N_LIES: u8 = 6;

/// Replace the number following `key=` (text form) by `f(number)`.
fn edit_text_number(s: &str, key: &str, f: impl Fn(u64) -> u64) -> String {
    let pat = format!("{key}=");
    if let Some(i) = s.find(&pat) {
        let start = i + pat.len();
        let end = s[start..]
            .find(|c: char| !c.is_ascii_digit())
            .map(|e| start + e)
            .unwrap_or(s.len());
        if let Ok(v) = s[start..end].parse::<u64>() {
            return format!("{}{}{}", &s[..start], f(v), &s[end..]);
        }
    }
    s.to_string()
}

/// Rebuild a level from `lvl` through one of the external forms ("dirty restart").
pub fn rebuild(lvl: &PriceLevel, path: u8, lie: u8) -> Result<PriceLevel, String> {
    match path {
        0 | 1 => {
            let mut s: PriceLevelSnapshot = lvl.snapshot();
            s.visible_quantity = lie_vis(lie, s.visible_quantity);
            s.hidden_quantity = lie_hid(lie, s.hidden_quantity);
            s.order_count = lie_cnt(lie, s.order_count as u64) as usize;
            if path == 0 {
                PriceLevel::from_snapshot(s).map_err(|e| e.to_string())
            } else {
                Ok(PriceLevel::from(&s))
            }
        }
        2 => {
            let pkg = if lie == 0 {
                lvl.snapshot_package().map_err(|e| e.to_string())?
            } else {
                let mut s: PriceLevelSnapshot = lvl.snapshot();
                s.visible_quantity = lie_vis(lie, s.visible_quantity);
                s.hidden_quantity = lie_hid(lie, s.hidden_quantity);
                s.order_count = lie_cnt(lie, s.order_count as u64) as usize;
                let p = PriceLevelSnapshotPackage::new(s).map_err(|e| e.to_string())?;
                p.validate()
                    .map_err(|e| format!("package built from a snapshot does not validate: {e}"))?;
                let l: Vec<OrderSpec> =
                    p.snapshot.orders.iter().map(|a| OrderSpec::of(a)).collect();
                if p.snapshot.visible_quantity as u128 != sum_vis(&l)
                    || p.snapshot.hidden_quantity as u128 != sum_hid(&l)
                    || p.snapshot.order_count != l.len()
                {
                    return Err("package carries aggregates not derived from its orders".into());
                }
                p
            };
            PriceLevel::from_snapshot_package(pkg).map_err(|e| e.to_string())
        }
        3 => {
            let j = lvl.snapshot_to_json().map_err(|e| e.to_string())?;
            PriceLevel::from_snapshot_json(&j).map_err(|e| e.to_string())
        }
        4 => {
            let j = serde_json::to_string(lvl).map_err(|e| e.to_string())?;
            let j = if lie == 0 {
                j
            } else {
                let mut v: serde_json::Value =
                    serde_json::from_str(&j).map_err(|e| e.to_string())?;
                if let Some(m) = v.as_object_mut() {
                    let cur = m.get("visible_quantity").and_then(|x| x.as_u64()).unwrap_or(0);
                    m.insert("visible_quantity".into(), serde_json::Value::from(lie_vis(lie, cur)));
                    let cur = m.get("hidden_quantity").and_then(|x| x.as_u64()).unwrap_or(0);
                    m.insert("hidden_quantity".into(), serde_json::Value::from(lie_hid(lie, cur)));
                    let cur = m.get("order_count").and_then(|x| x.as_u64()).unwrap_or(0);
                    m.insert(
                        "order_count".into(),
                        serde_json::Value::from(lie_cnt(lie, cur)),
                    );
                }
                v.to_string()
            };
            serde_json::from_str::<PriceLevel>(&j).map_err(|e| e.to_string())
        }
        5 => {
            let t = lvl.to_string();
            let t = if lie == 0 {
                t
            } else {
                let t = edit_text_number(&t, "visible_quantity", |v| lie_vis(lie, v));
                let t = edit_text_number(&t, "hidden_quantity", |v| lie_hid(lie, v));
                edit_text_number(&t, "order_count", |v| lie_cnt(lie, v))
            };
            PriceLevel::from_str(&t).map_err(|e| e.to_string())
        }
        7 => {
            // a self-consistent package whose stored aggregates lie: the checksum is recomputed
            // over the lying snapshot (SHA-256 of its JSON, as the format defines it), so
            // validation passes and only "aggregates are derived, never believed" protects
            use sha2::{Digest as _, Sha256};
            let mut pkg = lvl.snapshot_package().map_err(|e| e.to_string())?;
            pkg.snapshot.visible_quantity = lie_vis(lie, pkg.snapshot.visible_quantity);
            pkg.snapshot.hidden_quantity = lie_hid(lie, pkg.snapshot.hidden_quantity);
            pkg.snapshot.order_count = lie_cnt(lie, pkg.snapshot.order_count as u64) as usize;
            let payload = serde_json::to_vec(&pkg.snapshot).map_err(|e| e.to_string())?;
            pkg.checksum = format!("{:x}", Sha256::digest(&payload));
            if pkg.validate().is_err() {
                // the format's checksum rule is not what this harness assumes: fall back to the
                // library-made package (nothing to lie about then)
                let p = lvl.snapshot_package().map_err(|e| e.to_string())?;
                return PriceLevel::from_snapshot_package(p).map_err(|e| e.to_string());
            }
            if lie % 2 == 0 {
                PriceLevel::from_snapshot_package(pkg).map_err(|e| e.to_string())
            } else {
                let j = pkg.to_json().map_err(|e| e.to_string())?;
                PriceLevel::from_snapshot_json(&j).map_err(|e| e.to_string())
            }
        }
        _ => {
            let mut d = PriceLevelData::from(lvl);
            d.visible_quantity = lie_vis(lie, d.visible_quantity);
            d.hidden_quantity = lie_hid(lie, d.hidden_quantity);
            d.order_count = lie_cnt(lie, d.order_count as u64) as usize;
            PriceLevel::try_from(d).map_err(|e| e.to_string())
        }
    }
}

/// A history being executed (exposed so that C11 can fork it).
pub struct Exec<'a> {
    run: Run<'a>,
    _inst: Installed,
}

impl<'a> Exec<'a> {
    pub fn start(h: &'a History) -> Exec<'a> {
        let hooks = SeqHooks::new(h.knobs.clock.clone(), h.knobs.hash_seed, h.knobs.shards);
        let inst = Installed::new(hooks.clone());
        let level = PriceLevel::new(h.knobs.price);
        let mut run = Run {
            h,
            hooks,
            level,
            generator: UuidGenerator::new(Uuid::from_u128(h.knobs.namespace)),
            lp: h.knobs.price,
            listing: vec![],
            out: Outcome::default(),
            dg: Digest::default(),
            stamps: BTreeMap::new(),
            next_stamp: 0,
            stamps_valid: true,
            tickets_issued: 0,
            held: vec![],
            cancelled_once: BTreeSet::new(),
            ledger: BTreeMap::new(),
            txids: BTreeSet::new(),
            base_stats: [0; 4],
            exp_stats: [0; 4],
            all_at_level_price: true,
        };
        run.rebase_stats();
        Exec { run, _inst: inst }
    }
    /// Apply operation `i`; false when the run had to be cut short.
    pub fn apply(&mut self, i: usize, op: &Op) -> bool {
        let run = &mut self.run;
        // resource guard: the generator never lets more than ~280 orders rest at once; a book
        // far beyond that means the code under test no longer consumes or removes orders (some
        // monitor has said so already) and every further operation would cost O(book): stop here
        if run.listing.len() > 2000 {
            bump(&mut run.out.probes, "run_cut_short_book_exploded");
            run.out.aborted_at = Some(i);
            return false;
        }
        match i {
            100 => bump(&mut run.out.probes, "history_past_100_ops"),
            1000 => bump(&mut run.out.probes, "history_past_1000_ops"),
            100_000 => bump(&mut run.out.probes, "history_past_100000_ops"),
            _ => {}
        }
        match op {
            Op::Add(o) => run.op_add(i, o),
            Op::Match { qty, taker } => run.op_match(i, *qty, *taker),
            Op::Upd(u) => run.op_upd(i, u),
            Op::Read(k) => run.op_read(i, *k),
            Op::Restore { path, lie } => run.op_restore(i, *path, *lie),
            Op::Probe => run.op_probe(i),
        }
        run.out.ops_run += 1;
        run.out.aborted_at.is_none()
    }
    pub fn level(&self) -> &PriceLevel {
        &self.run.level
    }
    pub fn hooks(&self) -> &Arc<SeqHooks> {
        &self.run.hooks
    }
    pub fn generator(&self) -> &UuidGenerator {
        &self.run.generator
    }
    pub fn tx_issued(&self) -> usize {
        self.run.txids.len()
    }
    pub fn listing(&self) -> &[OrderSpec] {
        &self.run.listing
    }
    /// Resting ids in the priority order the property prescribes (by stamp), if tracked.
    pub fn spec_order(&self) -> Option<Vec<IdS>> {
        if !self.run.stamps_valid {
            return None;
        }
        let mut v: Vec<(u64, IdS)> = self
            .run
            .listing
            .iter()
            .filter_map(|o| self.run.stamps.get(&o.id).map(|s| (*s, o.id)))
            .collect();
        if v.len() != self.run.listing.len() {
            return None;
        }
        v.sort();
        Some(v.into_iter().map(|x| x.1).collect())
    }
    pub fn probes_mut(&mut self) -> &mut Probes {
        &mut self.run.out.probes
    }
    pub fn finish(self) -> Outcome {
        let Exec { mut run, _inst } = self;
        if run.out.aborted_at.is_none() {
            run.out.final_state = state_string(&run.level);
        }
        run.out.digest = run.dg.finish();
        run.out.steps = run.hooks.steps.load(std::sync::atomic::Ordering::Relaxed);
        run.out.clock_ms = run.hooks.clock.span.load(std::sync::atomic::Ordering::Relaxed);
        run.out.clock_jumps = run
            .hooks
            .clock
            .jumps_fired
            .load(std::sync::atomic::Ordering::Relaxed);
        let Run { out, level, .. } = run;
        // drop the level with hooks still installed
        drop(level);
        drop(_inst);
        out
    }
}

/// C07 purity, blind twin: the mutating library calls of a history that produced `resp_ops`
/// (indices into `h.ops`), made with *no* library call of any kind in between -- no read-only
/// operation of the history and none of the monitors' own observations (listing, aggregates,
/// statistics), which the observed run makes after every step.  Stops in front of the first rebuild.
/// Returns the canonical responses and, when the whole history was replayed, the final state.
pub fn run_blind(h: &History, resp_ops: &[usize]) -> Option<(Vec<String>, Option<String>)> {
    let hooks = SeqHooks::new(h.knobs.clock.clone(), h.knobs.hash_seed, h.knobs.shards);
    let _inst = Installed::new(hooks.clone());
    let level = PriceLevel::new(h.knobs.price);
    let generator = UuidGenerator::new(Uuid::from_u128(h.knobs.namespace));
    let mut held = vec![];
    let mut responses = vec![];
    let mut complete = true;
    for &i in resp_ops {
        let Some(op) = h.ops.get(i) else {
            return None;
        };
        hooks.begin_op(2_000_000);
        let r = match op {
            Op::Add(o) => {
                let lib = o.to_lib();
                guarded(|| level.add_order(lib)).map(|a| {
                    if h.knobs.hold && held.len() < 4096 {
                        held.push(a);
                    }
                    "A".to_string()
                })
            }
            Op::Match { qty, taker } => {
                let t = taker.to_lib();
                guarded(|| level.match_order(*qty, t, &generator)).map(|r| canon_match(&r))
            }
            Op::Upd(u) => {
                let lib = u.to_lib();
                guarded(|| level.update_order(lib)).map(|r| match &r {
                    Ok(Some(o)) => format!("U Some({})", OrderSpec::of(o).brief()),
                    Ok(None) => "U None".to_string(),
                    Err(_) => "U Err".to_string(),
                })
            }
            _ => {
                hooks.end_op();
                complete = false;
                break;
            }
        };
        hooks.end_op();
        match r {
            Ok(c) => responses.push(c),
            Err(_) => return None,
        }
    }
    let fin = if complete {
        Some(state_string(&level))
    } else {
        None
    };
    drop(held);
    drop(level);
    Some((responses, fin))
}

/// Execute a history.  Pure function of (history, code).
pub fn run_history(h: &History) -> Outcome {
    let mut e = Exec::start(h);
    for (i, op) in h.ops.iter().enumerate() {
        if !e.apply(i, op) {
            break;
        }
    }
    e.finish()
}

#[allow(dead_code)]
pub fn unused(_: &model::RuleOut, _: OrderType<()>) {}
