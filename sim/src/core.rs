//! Simulator core shared by the engines: panic capture, step budget, simulated clock.

use pricelevel::verif::{self, SimHooks, Site};
use serde::{Deserialize, Serialize};
use std::cell::RefCell;
use std::panic::{AssertUnwindSafe, catch_unwind};
use std::sync::Arc;
use std::sync::Once;
use std::sync::atomic::{AtomicU64, Ordering};

/// Private panic payload used to unwind an operation that overran its step budget.
pub struct BudgetExceeded;

thread_local! {
    static LAST_PANIC: RefCell<Option<String>> = const { RefCell::new(None) };
    static IN_GUARDED: std::cell::Cell<u32> = const { std::cell::Cell::new(0) };
}

static HOOK: Once = Once::new();

/// Install the process-wide quiet panic hook (stores message + location per thread, prints nothing).
pub fn install_panic_hook() {
    HOOK.call_once(|| {
        std::panic::set_hook(Box::new(|info| {
            let msg = if info.payload().is::<BudgetExceeded>() {
                "BudgetExceeded".to_string()
            } else if let Some(s) = info.payload().downcast_ref::<&str>() {
                (*s).to_string()
            } else if let Some(s) = info.payload().downcast_ref::<String>() {
                s.clone()
            } else {
                "<non-string panic>".to_string()
            };
            let loc = info
                .location()
                .map(|l| format!("{}:{}", l.file(), l.line()))
                .unwrap_or_default();
            if IN_GUARDED.with(|g| g.get()) == 0 {
                eprintln!("harness panic: {msg} @ {loc}");
            }
            LAST_PANIC.with(|p| *p.borrow_mut() = Some(format!("{msg} @ {loc}")));
        }));
    });
}

#[derive(Debug, Clone, PartialEq, Eq)]
pub enum Fail {
    Budget,
    Panic(String),
}

impl Fail {
    pub fn brief(&self) -> String {
        match self {
            Fail::Budget => "did not return within the step budget".into(),
            Fail::Panic(m) => format!("panicked: {m}"),
        }
    }
}

/// Run a library call, turning a panic / budget overrun into an observation.
pub fn guarded<R>(f: impl FnOnce() -> R) -> Result<R, Fail> {
    IN_GUARDED.with(|g| g.set(g.get() + 1));
    let r = catch_unwind(AssertUnwindSafe(f));
    IN_GUARDED.with(|g| g.set(g.get() - 1));
    match r {
        Ok(r) => Ok(r),
        Err(p) => {
            let msg = LAST_PANIC
                .with(|p| p.borrow_mut().take())
                .unwrap_or_else(|| "<unknown>".into());
            if p.is::<BudgetExceeded>() {
                Err(Fail::Budget)
            } else {
                Err(Fail::Panic(msg))
            }
        }
    }
}

// ---------------------------------------------------------------------------
// clock

#[derive(Clone, Debug, PartialEq, Serialize, Deserialize)]
pub struct ClockCfg {
    pub base: u64,
    /// advance per read, ms
    pub tick: u64,
    /// (read index, new absolute value) — jumps forwards, backwards, to 0, to near u64::MAX
    #[serde(default)]
    pub jumps: Vec<(u64, u64)>,
}

impl Default for ClockCfg {
    fn default() -> Self {
        ClockCfg {
            base: 1_700_000_000_000,
            tick: 1,
            jumps: vec![],
        }
    }
}

pub struct SimClock {
    cfg: ClockCfg,
    reads: AtomicU64,
    now: AtomicU64,
    pub jumps_fired: AtomicU64,
    pub span: AtomicU64,
}

impl SimClock {
    pub fn new(cfg: ClockCfg) -> Self {
        let now = cfg.base;
        SimClock {
            cfg,
            reads: AtomicU64::new(0),
            now: AtomicU64::new(now),
            jumps_fired: AtomicU64::new(0),
            span: AtomicU64::new(0),
        }
    }
    pub fn read(&self) -> u64 {
        let i = self.reads.fetch_add(1, Ordering::Relaxed);
        for (at, v) in &self.cfg.jumps {
            if *at == i {
                self.now.store(*v, Ordering::Relaxed);
                self.jumps_fired.fetch_add(1, Ordering::Relaxed);
            }
        }
        self.span.fetch_add(self.cfg.tick, Ordering::Relaxed);
        let cur = self.now.load(Ordering::Relaxed);
        self.now
            .store(cur.saturating_add(self.cfg.tick), Ordering::Relaxed);
        cur
    }
}

// ---------------------------------------------------------------------------
// engine-S hooks: one thread, no switching; steps are counted against a per-operation budget

pub struct SeqHooks {
    pub steps: AtomicU64,
    op_steps: AtomicU64,
    budget: AtomicU64,
    pub clock: SimClock,
    hash_seed: u64,
    shards: usize,
}

impl SeqHooks {
    pub fn new(clock: ClockCfg, hash_seed: u64, shards: usize) -> Arc<Self> {
        Arc::new(SeqHooks {
            steps: AtomicU64::new(0),
            op_steps: AtomicU64::new(0),
            budget: AtomicU64::new(u64::MAX),
            clock: SimClock::new(clock),
            hash_seed,
            shards,
        })
    }
    pub fn begin_op(&self, budget: u64) {
        self.op_steps.store(0, Ordering::Relaxed);
        self.budget.store(budget, Ordering::Relaxed);
    }
    pub fn end_op(&self) -> u64 {
        self.budget.store(u64::MAX, Ordering::Relaxed);
        self.op_steps.load(Ordering::Relaxed)
    }
}

impl SimHooks for SeqHooks {
    fn step(&self, _site: Site, _key: u64, guard_held: bool) {
        self.steps.fetch_add(1, Ordering::Relaxed);
        let n = self.op_steps.fetch_add(1, Ordering::Relaxed) + 1;
        if n > self.budget.load(Ordering::Relaxed) && !guard_held {
            std::panic::panic_any(BudgetExceeded);
        }
    }
    fn now_millis(&self) -> u64 {
        self.clock.read()
    }
    fn hash_seed(&self) -> u64 {
        self.hash_seed
    }
    fn shards(&self) -> usize {
        self.shards
    }
}

/// RAII installation of a hook object on the current thread.
pub struct Installed(Option<Arc<dyn SimHooks>>);
impl Installed {
    pub fn new(h: Arc<dyn SimHooks>) -> Self {
        Installed(verif::install(h))
    }
}
impl Drop for Installed {
    fn drop(&mut self) {
        match self.0.take() {
            Some(prev) => {
                verif::install(prev);
            }
            None => {
                verif::uninstall();
            }
        }
    }
}


// ---------------------------------------------------------------------------
// crash triage: when PLSIM_TRACE names a file, every inner case is written there (one JSON line,
// flushed) *before* it is executed, so that after a process abort the last line is the culprit

static TRACE_ON: std::sync::atomic::AtomicBool = std::sync::atomic::AtomicBool::new(false);
static TRACE_FILE: std::sync::Mutex<Option<std::fs::File>> = std::sync::Mutex::new(None);

pub fn init_trace() {
    if let Ok(p) = std::env::var("PLSIM_TRACE") {
        if let Ok(f) = std::fs::File::create(&p) {
            *TRACE_FILE.lock().unwrap() = Some(f);
            TRACE_ON.store(true, Ordering::Relaxed);
        }
    }
}

#[inline]
pub fn trace_case(f: impl FnOnce() -> serde_json::Value) {
    if TRACE_ON.load(Ordering::Relaxed) {
        use std::io::Write;
        let line = f().to_string();
        if let Some(file) = TRACE_FILE.lock().unwrap().as_mut() {
            let _ = writeln!(file, "{line}");
            let _ = file.flush();
        }
    }
}
