//! Checks decided by engine W (wire / storage faults): C09 C16 C17 C18.

use crate::core::{ClockCfg, Fail, Installed, SeqHooks, guarded, trace_case};
use crate::driver::{Check, MinStats, RunOut, Tier};
use crate::prng::{Digest, Rng};
use crate::seq::Violation;
use crate::spec::OrderSpec;
use crate::wire::*;
use pricelevel::verif::exports::PriceLevelSnapshotPackage;
use pricelevel::verif::muted;
use pricelevel::{PriceLevel, PriceLevelError};
use serde_json::{Value, json};
use std::collections::BTreeMap;

fn dig(s: &str) -> u64 {
    let mut d = Digest::default();
    d.str(s);
    d.finish()
}

fn no_min(case: &Value) -> (Value, MinStats) {
    (
        case.clone(),
        MinStats {
            attempts: 0,
            from_size: 1,
            to_size: 1,
        },
    )
}

// ---------------------------------------------------------------------------
// C16 / C17: fault-free channel

pub struct RoundTrip {
    pub prop: &'static str,
    pub codec: Codec,
}

impl RoundTrip {
    fn run_vals(&self, vals: &[Val]) -> RunOut {
        let hooks = SeqHooks::new(ClockCfg::default(), 3, 4);
        let _i = Installed::new(hooks.clone());
        let mut out = RunOut::default();
        let mut dg = Digest::default();
        let mut probes = BTreeMap::new();
        for v in vals {
            trace_case(|| json!({"values": [v]}));
            match round_trip(v, self.codec) {
                Ok(Some(enc)) => {
                    out.inner_evals += 1;
                    let d = dig(&enc);
                    out.inner_digests.push(d);
                    dg.u64(d);
                    *probes.entry(v.type_name()).or_insert(0u64) += 1;
                }
                Ok(None) => {}
                Err(e) => {
                    out.inner_evals += 1;
                    let sig = format!("{}/{}", self.prop, v.type_name());
                    if !out.violations.iter().any(|x| x.sig == sig) {
                        out.violations.push(Violation {
                            prop: self.prop.into(),
                            sig,
                            at: 0,
                            detail: e,
                        });
                    }
                }
            }
        }
        out.digest = dg.finish();
        out.nontrivial = false; // counted through inner_digests
        out.probes = probes;
        out.steps = hooks.steps.load(std::sync::atomic::Ordering::Relaxed);
        out
    }
}

impl Check for RoundTrip {
    fn isolate(&self) -> bool {
        true
    }
    fn prop(&self) -> &'static str {
        self.prop
    }
    fn engine(&self) -> &'static str {
        "W"
    }
    fn runs(&self, tier: Tier) -> u64 {
        match tier {
            Tier::Quick => 200_000,
            Tier::Thorough => 4_000_000,
        }
    }
    fn run_seed(&self, seed: u64) -> RunOut {
        self.run_vals(&gen_values(seed))
    }
    fn case_of_seed(&self, seed: u64) -> Value {
        json!({"values": gen_values(seed)})
    }
    fn run_case(&self, case: &Value) -> Result<RunOut, String> {
        let vals: Vec<Val> =
            serde_json::from_value(case["values"].clone()).map_err(|e| e.to_string())?;
        Ok(self.run_vals(&vals))
    }
    fn minimise(&self, case: &Value, sig: &str) -> (Value, MinStats) {
        let Ok(vals) = serde_json::from_value::<Vec<Val>>(case["values"].clone()) else {
            return no_min(case);
        };
        let n = vals.len();
        let mut attempts = 0;
        for v in &vals {
            attempts += 1;
            let r = self.run_vals(std::slice::from_ref(v));
            if r.violations.iter().any(|x| x.sig == sig) {
                return (
                    json!({"values": [v]}),
                    MinStats {
                        attempts,
                        from_size: n,
                        to_size: 1,
                    },
                );
            }
        }
        no_min(case)
    }
    fn rule(&self) -> String {
        format!(
            "engine W, fault-free channel ({:?} codec): every run sends a boundary-pool draw of every codec type (0, 1, 2^32, 2^53+-1, i64::MAX(+1), u64::MAX, GTD(0/u64::MAX), absent replenish amount, nil / all-ones / random UUID and ULID, empty and multi-element lists) plus every order, match result, transaction, level, snapshot, package and statistics value produced by a simulated history on the real level; oracle decoded == original in harness-side form (level/queue: equal content and derived aggregates; snapshot text: price and aggregates; package: still validates); evaluations = values sent, distinct non-trivial = distinct encoded strings",
            self.codec
        )
    }
    fn assumptions(&self) -> Vec<String> {
        vec![
            "thin fit for this technique: the property has no schedule or fault in it; the simulator contributes the value population of real runs and replayability".into(),
            "levels respect the stated precondition that aggregate sums fit in 64 bits".into(),
            "uuid, ulid, serde_json are trusted".into(),
        ]
    }
}

// ---------------------------------------------------------------------------
// C18: faulty channel into every parser

pub struct Totality;

fn call_parser(
    hooks: &SeqHooks,
    name: &str,
    p: ParserFn,
    input: &str,
) -> Option<(String, String)> {
    trace_case(|| json!({"inputs": [[name, input]]}));
    hooks.begin_op(64 * (input.len() as u64 + 256));
    let r = guarded(|| p(input));
    hooks.end_op();
    match r {
        Ok(_) => None,
        Err(Fail::Budget) => Some((
            format!("C18/{name}-does-not-return"),
            format!("parser {name} exceeded its step budget on {:?}", clip(input)),
        )),
        Err(Fail::Panic(m)) => Some((
            format!("C18/{name}-panics"),
            format!("parser {name} panicked ({m}) on {:?}", clip(input)),
        )),
    }
}

fn clip(s: &str) -> String {
    if s.chars().count() > 300 {
        let t: String = s.chars().take(300).collect();
        format!("{t}…(+{} chars)", s.chars().count() - 300)
    } else {
        s.to_string()
    }
}

impl Totality {
    fn run_inputs(&self, inputs: &[(String, String)]) -> RunOut {
        let hooks = SeqHooks::new(ClockCfg::default(), 3, 4);
        let _i = Installed::new(hooks.clone());
        let mut out = RunOut::default();
        for (name, input) in inputs {
            if let Some(p) = parser_by_name(name) {
                out.inner_evals += 1;
                if let Some((sig, detail)) = call_parser(&hooks, name, p, input) {
                    if !out.violations.iter().any(|x| x.sig == sig) {
                        out.violations.push(Violation {
                            prop: "C18".into(),
                            sig,
                            at: 0,
                            detail,
                        });
                    }
                }
            }
        }
        out
    }

    /// Enumerate all single faults of the encodings of a subset of this seed's values.
    fn run_seed_inner(&self, seed: u64, collect: Option<&mut Vec<(String, String, String)>>) -> RunOut {
        let hooks = SeqHooks::new(ClockCfg::default(), 3, 4);
        let _i = Installed::new(hooks.clone());
        let mut out = RunOut::default();
        let vals = gen_values(seed);
        let mut r = Rng::stream(seed, 5);
        let all = parsers();
        let mut faults: BTreeMap<&'static str, u64> = BTreeMap::new();
        let mut collect = collect;
        let mut dg = Digest::default();
        // a handful of values per run, fully enumerated
        let mut picked: Vec<&Val> = vec![];
        for _ in 0..4 {
            picked.push(&vals[r.below(vals.len() as u64) as usize]);
        }
        for v in picked {
            for codec in [Codec::Text, Codec::Json] {
                // encoding a value parses it back as well: traced, because it can bring the
                // process down just like a damaged input
                trace_case(|| json!({"values": [v]}));
                let Ok(Some(enc)) = round_trip(v, codec) else { continue };
                if enc.len() > 1500 {
                    continue;
                }
                dg.str(&enc);
                out.inner_digests.push(dig(&enc));
                let names = parsers_for(v, codec);
                // the valid encoding into every other parser
                for (n, p) in &all {
                    out.inner_evals += 1;
                    *faults.entry("cross_fed").or_insert(0) += 1;
                    if let Some((sig, detail)) = call_parser(&hooks, n, *p, &enc) {
                        if let Some(c) = collect.as_deref_mut() {
                            c.push((sig.clone(), n.to_string(), enc.clone()));
                        }
                        push_v(&mut out, sig, detail);
                    }
                }
                // sampled pairs of single faults (a structural character inserted or removed at one
                // place AND a truncation / deletion / insertion elsewhere)
                if !names.is_empty() {
                    let mut singles: Vec<Fault> = vec![];
                    let mut structural: Vec<Fault> = vec![];
                    enumerate_faults(&enc, &SUBST_CHARS, &INSERT_CHARS, &mut |f, _| {
                        let is_struct = matches!(f.ch, Some(']') | Some(',') | Some(';') | Some('=') | Some('"'))
                            || f.kind == "delete"
                            || f.kind == "truncate";
                        if is_struct && structural.len() < 6000 {
                            structural.push(f.clone());
                        }
                        if singles.len() < 6000 {
                            singles.push(f.clone());
                        }
                    });
                    for _ in 0..500 {
                        if structural.is_empty() || singles.is_empty() {
                            break;
                        }
                        let a = &structural[r.below(structural.len() as u64) as usize];
                        let b = if r.chance(1, 2) {
                            &structural[r.below(structural.len() as u64) as usize]
                        } else {
                            &singles[r.below(singles.len() as u64) as usize]
                        };
                        // apply the later position first so that the earlier one stays valid
                        let (first, second) = if a.at >= b.at { (a, b) } else { (b, a) };
                        let m = apply_fault(&apply_fault(&enc, first), second);
                        for n in &names {
                            let p = parser_by_name(n).unwrap();
                            out.inner_evals += 1;
                            *faults.entry("pair_of_faults").or_insert(0) += 1;
                            if let Some((sig, detail)) = call_parser(&hooks, n, p, &m) {
                                if let Some(c) = collect.as_deref_mut() {
                                    c.push((sig.clone(), n.to_string(), m.clone()));
                                }
                                push_v(&mut out, sig, detail);
                            }
                        }
                    }
                }
                for n in names {
                    let p = parser_by_name(n).unwrap();
                    enumerate_faults(&enc, &SUBST_CHARS, &INSERT_CHARS, &mut |f, m| {
                        out.inner_evals += 1;
                        let k: &'static str = match f.kind.as_str() {
                            "truncate" => "truncate",
                            "delete" => "delete",
                            "subst" => {
                                if f.ch.map(|c| c.len_utf8() > 1).unwrap_or(false) {
                                    "subst_multibyte"
                                } else {
                                    "subst_ascii"
                                }
                            }
                            "bitflip" => "digit_flip",
                            "swap" => "swap",
                            "insert" => "insert",
                            "caseflip" => "letter_case_flip",
                            "dup_element" => "duplicated_list_element",
                            _ => "duplicate_run",
                        };
                        *faults.entry(k).or_insert(0) += 1;
                        if let Some((sig, detail)) = call_parser(&hooks, n, p, m) {
                            if let Some(c) = collect.as_deref_mut() {
                                c.push((sig.clone(), n.to_string(), m.to_string()));
                            }
                            push_v(&mut out, sig, detail);
                        }
                    });
                }
            }
        }
        out.digest = dg.finish();
        out.faults = faults;
        out.steps = hooks.steps.load(std::sync::atomic::Ordering::Relaxed);
        out
    }
}

fn push_v(out: &mut RunOut, sig: String, detail: String) {
    if !out.violations.iter().any(|x| x.sig == sig) {
        out.violations.push(Violation {
            prop: "C18".into(),
            sig,
            at: 0,
            detail,
        });
    }
}

impl Check for Totality {
    fn isolate(&self) -> bool {
        true
    }
    fn prop(&self) -> &'static str {
        "C18"
    }
    fn engine(&self) -> &'static str {
        "W"
    }
    fn level(&self) -> &'static str {
        "fault_enumeration"
    }
    fn runs(&self, tier: Tier) -> u64 {
        match tier {
            Tier::Quick => 1_500,
            Tier::Thorough => 30_000,
        }
    }
    fn run_seed(&self, seed: u64) -> RunOut {
        self.run_seed_inner(seed, None)
    }
    fn case_of_seed(&self, seed: u64) -> Value {
        // the valid encodings whose complete single-fault space this run enumerates
        let hooks = SeqHooks::new(ClockCfg::default(), 3, 4);
        let _i = Installed::new(hooks);
        let vals = gen_values(seed);
        let mut r = Rng::stream(seed, 5);
        let mut encs: Vec<Value> = vec![];
        for _ in 0..4 {
            let v = &vals[r.below(vals.len() as u64) as usize];
            for codec in [Codec::Text, Codec::Json] {
                if let Ok(Some(enc)) = round_trip(v, codec) {
                    if enc.len() <= 1500 {
                        encs.push(json!({"type": v.type_name(), "codec": format!("{codec:?}"), "encoding": enc, "fed_to": parsers_for(v, codec)}));
                    }
                }
            }
        }
        json!({"values_seed": seed.to_string(), "valid_encodings_whose_fault_space_is_enumerated": encs})
    }
    fn run_case(&self, case: &Value) -> Result<RunOut, String> {
        if let Some(inputs) = case.get("inputs") {
            let v: Vec<(String, String)> =
                serde_json::from_value(inputs.clone()).map_err(|e| e.to_string())?;
            return Ok(self.run_inputs(&v));
        }
        if let Some(vals) = case.get("values") {
            // crash triage case: a value whose own encoding could not be parsed back safely
            let vals: Vec<Val> = serde_json::from_value(vals.clone()).map_err(|e| e.to_string())?;
            let hooks = SeqHooks::new(ClockCfg::default(), 3, 4);
            let _i = Installed::new(hooks);
            let mut out = RunOut::default();
            for v in &vals {
                for codec in [Codec::Text, Codec::Json] {
                    if let Err(e) = round_trip(v, codec) {
                        if e.contains("panicked") {
                            push_v(
                                &mut out,
                                format!("C18/{}-round-trip-panics", v.type_name()),
                                e,
                            );
                        }
                    }
                }
            }
            return Ok(out);
        }
        let seed: u64 = case["values_seed"]
            .as_str()
            .and_then(|s| s.parse().ok())
            .ok_or("bad case")?;
        Ok(self.run_seed_inner(seed, None))
    }
    fn minimise(&self, case: &Value, sig: &str) -> (Value, MinStats) {
        let Some(seed) = case["values_seed"].as_str().and_then(|s| s.parse::<u64>().ok()) else {
            return no_min(case);
        };
        let mut found: Vec<(String, String, String)> = vec![];
        let _ = self.run_seed_inner(seed, Some(&mut found));
        // shortest failing input for this signature, then greedy character removal
        let mut best: Option<(String, String)> = None;
        for (s, n, input) in found {
            if s == sig && best.as_ref().map(|b| input.len() < b.1.len()).unwrap_or(true) {
                best = Some((n, input));
            }
        }
        let Some((name, mut input)) = best else { return no_min(case) };
        let from = input.chars().count();
        let mut attempts = 0u64;
        let fails = |s: &str| {
            self.run_inputs(&[(name.clone(), s.to_string())])
                .violations
                .iter()
                .any(|v| v.sig == sig)
        };
        let mut progress = true;
        while progress && attempts < 5000 {
            progress = false;
            let chars: Vec<char> = input.chars().collect();
            let mut chunk = chars.len() / 2;
            while chunk >= 1 && !progress {
                let mut i = 0;
                while i + chunk <= chars.len() {
                    let cand: String = chars[..i].iter().chain(chars[i + chunk..].iter()).collect();
                    attempts += 1;
                    if fails(&cand) {
                        input = cand;
                        progress = true;
                        break;
                    }
                    i += chunk.max(1);
                }
                chunk /= 2;
            }
        }
        let to = input.chars().count();
        (
            json!({"inputs": [[name, input]]}),
            MinStats {
                attempts,
                from_size: from,
                to_size: to,
            },
        )
    }
    fn rule(&self) -> String {
        "engine W, faulty channel: per run 4 values of the C16/C17 population are encoded as text and JSON and, for each encoding (<= 1500 bytes), EVERY single-position fault is enumerated at char level — truncation at every point, deletion, substitution by 7 characters (digit, letter, ';', '=', and the multi-byte 'é' '€' '𝄞'), low-bit digit flip, adjacent swap, insertion of 5 characters at every gap, duplication of runs of 1/7/40 chars — and fed to the matching FromStr / serde / from_snapshot_json entry point; every valid encoding is also fed to all 31 entry points (wrong-type parsing); a fixed adversarial corpus (empty, lone separators, 10^4 nested brackets, 38-digit numbers, multi-byte characters at field positions) goes to every entry point once; oracle: the call returns Ok or Err — a panic is captured, a loop overruns the step budget; evaluations = parser calls, distinct non-trivial = distinct valid encodings whose fault space was enumerated".into()
    }
    fn assumptions(&self) -> Vec<String> {
        vec![
            "inputs are valid UTF-8 (every entry point takes &str)".into(),
            "a loop inside an un-instrumented parser is caught only by the process watchdog (exit 2), loops through PriceLevel/OrderQueue construction by the step budget".into(),
        ]
    }
    fn once(&self, _tier: Tier) -> Option<(u64, u64, Vec<(Value, Violation)>, String)> {
        let hooks = SeqHooks::new(ClockCfg::default(), 3, 4);
        let _i = Installed::new(hooks.clone());
        let mut evals = 0;
        let mut viol: Vec<(Value, Violation)> = vec![];
        let c = corpus();
        for s in &c {
            for (n, p) in parsers() {
                evals += 1;
                if let Some((sig, detail)) = call_parser(&hooks, n, p, s) {
                    if !viol.iter().any(|v| v.1.sig == sig) {
                        viol.push((
                            json!({"inputs": [[n, s]]}),
                            Violation {
                                prop: "C18".into(),
                                sig,
                                at: 0,
                                detail,
                            },
                        ));
                    }
                }
            }
        }
        Some((
            evals,
            c.len() as u64,
            viol,
            format!("{} corpus strings x {} entry points", c.len(), parsers().len()),
        ))
    }
}

// ---------------------------------------------------------------------------
// C09: damaged snapshot packages

pub struct Tamper;

#[derive(Clone, Debug, PartialEq)]
struct Content {
    price: u64,
    orders: Vec<OrderSpec>,
    vis: u64,
    hid: u64,
    count: usize,
}

fn content_of_level(l: &PriceLevel) -> Content {
    muted(|| {
        let mut orders: Vec<OrderSpec> = l.iter_orders().iter().map(|a| OrderSpec::of(a)).collect();
        orders.sort_by_key(|o| (o.id, o.ts, o.vis, o.hid));
        Content {
            price: l.price(),
            orders,
            vis: l.visible_quantity(),
            hid: l.hidden_quantity(),
            count: l.order_count(),
        }
    })
}

#[derive(Default)]
struct Stages {
    syntax_or_schema: u64,
    version: u64,
    checksum: u64,
    same_content: u64,
    other_error: u64,
}

/// Restore a (possibly damaged) package text through both entry points and judge the result.
fn judge(
    original_level: &Content,
    original_seq: &SnapSpec,
    text: &str,
    must_fail: bool,
    st: &mut Stages,
) -> Option<(String, String)> {
    trace_case(|| json!({"damaged_only": text}));
    // entry point 1: PriceLevel::from_snapshot_json
    let r1 = guarded(|| PriceLevel::from_snapshot_json(text).map(|l| content_of_level(&l)));
    match r1 {
        Err(f) => {
            return Some((
                "C09/restore-panics".into(),
                format!("from_snapshot_json {} on {:?}", f.brief(), clip(text)),
            ));
        }
        Ok(Ok(c)) => {
            if must_fail {
                return Some((
                    "C09/damaged-package-accepted".into(),
                    format!("a truncated package, or one whose checksum / version no longer matches its content, restored successfully: {:?}", clip(text)),
                ));
            }
            if &c != original_level {
                return Some((
                    "C09/restored-different-content".into(),
                    format!(
                        "from_snapshot_json accepted a damaged package and yielded {:?} instead of {:?}; text {:?}",
                        c,
                        original_level,
                        clip(text)
                    ),
                ));
            }
            st.same_content += 1;
        }
        Ok(Err(e)) => match e {
            PriceLevelError::DeserializationError { .. } => st.syntax_or_schema += 1,
            PriceLevelError::ChecksumMismatch { .. } => st.checksum += 1,
            PriceLevelError::InvalidOperation { .. } => st.version += 1,
            _ => st.other_error += 1,
        },
    }
    // entry point 2: serde -> into_snapshot
    let r2 = guarded(|| {
        serde_json::from_str::<PriceLevelSnapshotPackage>(text)
            .map_err(|e| e.to_string())
            .and_then(|p| p.into_snapshot().map_err(|e| e.to_string()))
            .map(|s| SnapSpec::of(&s))
    });
    match r2 {
        Err(f) => Some((
            "C09/restore-panics".into(),
            format!("package deserialization {} on {:?}", f.brief(), clip(text)),
        )),
        Ok(Ok(s)) => {
            if must_fail {
                return Some((
                    "C09/damaged-package-accepted".into(),
                    format!("a truncated package, or one whose checksum / version no longer matches its content, deserialized and validated: {:?}", clip(text)),
                ));
            }
            if &s != original_seq {
                return Some((
                    "C09/package-different-content".into(),
                    format!(
                        "into_snapshot accepted a damaged package and yielded {:?} instead of {:?}; text {:?}",
                        s,
                        original_seq,
                        clip(text)
                    ),
                ));
            }
            None
        }
        Ok(Err(_)) => None,
    }
}

/// Structural edits on the parsed tree, re-serialised.
fn structural_edits(text: &str, r: &mut Rng) -> Vec<(&'static str, String)> {
    let Ok(v) = serde_json::from_str::<Value>(text) else {
        return vec![];
    };
    let mut out: Vec<(&'static str, String)> = vec![];
    out.push(("reserialised_unchanged", v.to_string()));
    let orders = v["snapshot"]["orders"].as_array().cloned().unwrap_or_default();
    let n = orders.len();
    let set_orders = |o: Vec<Value>| {
        let mut c = v.clone();
        c["snapshot"]["orders"] = Value::Array(o);
        c.to_string()
    };
    if n >= 2 {
        for i in 0..n - 1 {
            let mut o = orders.clone();
            o.swap(i, i + 1);
            if o != orders {
                out.push(("swap_orders", set_orders(o)));
            }
        }
        let mut o = orders.clone();
        o.reverse();
        if o != orders {
            out.push(("reverse_orders", set_orders(o)));
        }
    }
    for i in 0..n {
        let mut o = orders.clone();
        o.remove(i);
        out.push(("drop_order", set_orders(o)));
        let mut o = orders.clone();
        o.insert(i, orders[i].clone());
        out.push(("duplicate_order", set_orders(o)));
    }
    // numbers anywhere in the tree
    fn paths(v: &Value, cur: &mut Vec<String>, acc: &mut Vec<Vec<String>>) {
        match v {
            Value::Number(_) => acc.push(cur.clone()),
            Value::Array(a) => {
                for (i, x) in a.iter().enumerate() {
                    cur.push(i.to_string());
                    paths(x, cur, acc);
                    cur.pop();
                }
            }
            Value::Object(m) => {
                for (k, x) in m {
                    cur.push(k.clone());
                    paths(x, cur, acc);
                    cur.pop();
                }
            }
            _ => {}
        }
    }
    fn at<'a>(v: &'a mut Value, p: &[String]) -> &'a mut Value {
        let mut c = v;
        for k in p {
            c = if c.is_array() {
                &mut c[k.parse::<usize>().unwrap()]
            } else {
                &mut c[k.as_str()]
            };
        }
        c
    }
    let mut acc = vec![];
    paths(&v, &mut vec![], &mut acc);
    for p in &acc {
        let cur = at(&mut v.clone(), p).clone();
        let base = cur.as_u64();
        let mut alts: Vec<Value> = vec![];
        if let Some(b) = base {
            alts.push(Value::from(b.wrapping_add(1)));
            if b > 0 {
                alts.push(Value::from(b - 1));
                alts.push(Value::from(0u64));
            }
            if b != u64::MAX {
                alts.push(Value::from(u64::MAX));
            }
        } else if let Some(b) = cur.as_i64() {
            alts.push(Value::from(b.wrapping_add(1)));
            alts.push(Value::from(0));
        }
        for a in alts {
            if a == cur {
                continue;
            }
            let mut c = v.clone();
            *at(&mut c, p) = a;
            out.push(("edit_number", c.to_string()));
        }
    }
    // move digits across the boundary of two numbers that follow each other in the text
    // (an encoding that concatenates fields without separators cannot tell these apart)
    {
        let bytes = text.as_bytes();
        let mut nums: Vec<(usize, usize)> = vec![];
        let mut i = 0;
        let mut in_str = false;
        while i < bytes.len() {
            let c = bytes[i];
            if c == b'"' && (i == 0 || bytes[i - 1] != b'\\') {
                in_str = !in_str;
            }
            if !in_str && c.is_ascii_digit() && i > 0 && bytes[i - 1] == b':' {
                let st = i;
                while i < bytes.len() && bytes[i].is_ascii_digit() {
                    i += 1;
                }
                nums.push((st, i));
                continue;
            }
            i += 1;
        }
        for w in nums.windows(2) {
            let (a, b) = (w[0], w[1]);
            let sa = &text[a.0..a.1];
            let sb = &text[b.0..b.1];
            // first k digits of b appended to a
            for k in 1..sb.len() {
                let nb = &sb[k..];
                if nb.len() > 1 && nb.starts_with('0') {
                    continue;
                }
                let na = format!("{sa}{}", &sb[..k]);
                if na.len() > 1 && na.starts_with('0') {
                    continue;
                }
                let t = format!("{}{}{}{}{}", &text[..a.0], na, &text[a.1..b.0], nb, &text[b.1..]);
                out.push(("shift_digits_between_numbers", t));
            }
            // last k digits of a prepended to b
            for k in 1..sa.len() {
                let na = &sa[..sa.len() - k];
                let nb = format!("{}{sb}", &sa[sa.len() - k..]);
                if nb.len() > 1 && nb.starts_with('0') {
                    continue;
                }
                let t = format!("{}{}{}{}{}", &text[..a.0], na, &text[a.1..b.0], nb, &text[b.1..]);
                out.push(("shift_digits_between_numbers", t));
            }
        }
    }
    // version / checksum
    for ver in [0u64, 2, u32::MAX as u64] {
        let mut c = v.clone();
        c["version"] = Value::from(ver);
        out.push(("change_version", c.to_string()));
    }
    if let Some(cs) = v["checksum"].as_str() {
        let mut c = v.clone();
        c["checksum"] = Value::from(cs.to_uppercase());
        if cs.to_uppercase() != cs {
            out.push(("checksum_uppercase", c.to_string()));
        }
        let mut c = v.clone();
        c["checksum"] = Value::from(&cs[..cs.len().saturating_sub(1)]);
        out.push(("checksum_truncated", c.to_string()));
        let mut c = v.clone();
        c["checksum"] = Value::from("");
        out.push(("checksum_empty", c.to_string()));
        let mut c = v.clone();
        let mut b: Vec<char> = cs.chars().collect();
        if !b.is_empty() {
            let i = r.below(b.len() as u64) as usize;
            b[i] = if b[i] == '0' { '1' } else { '0' };
        }
        c["checksum"] = Value::from(b.into_iter().collect::<String>());
        out.push(("checksum_one_nibble", c.to_string()));
    }
    // keys
    let mut c = v.clone();
    if let Some(m) = c["snapshot"].as_object_mut() {
        if let Some(x) = m.remove("price") {
            m.insert("Price".into(), x);
        }
    }
    out.push(("rename_key", c.to_string()));
    let mut c = v.clone();
    c["snapshot"]["extra"] = Value::from(1);
    out.push(("unknown_key_in_snapshot", c.to_string()));
    let mut c = v.clone();
    c["extra"] = Value::from(1);
    out.push(("unknown_key_in_package", c.to_string()));
    // duplicate key (textual)
    if let Some(i) = text.find("\"price\":") {
        let mut t = text.to_string();
        t.insert_str(i, "\"price\":0,");
        out.push(("duplicate_key", t));
    }
    // string fields of orders: side / time in force / id
    for (i, o) in orders.iter().enumerate() {
        if let Some(obj) = o.as_object() {
            for (variant, body) in obj {
                if let Some(side) = body["side"].as_str() {
                    let mut c = v.clone();
                    c["snapshot"]["orders"][i][variant]["side"] =
                        Value::from(if side == "BUY" { "SELL" } else { "BUY" });
                    out.push(("flip_side", c.to_string()));
                    let mut c = v.clone();
                    c["snapshot"]["orders"][i][variant]["side"] =
                        Value::from(if side == "BUY" { "buy" } else { "sell" });
                    out.push(("side_alias_spelling", c.to_string()));
                }
                let new_tif = if body["time_in_force"] == Value::from("IOC") { "DAY" } else { "IOC" };
                let mut c = v.clone();
                c["snapshot"]["orders"][i][variant]["time_in_force"] = Value::from(new_tif);
                out.push(("change_tif", c.to_string()));
                // another variant with the same body
                for other in ["Standard", "PostOnly", "MarketToLimit"] {
                    if other != variant {
                        let mut c = v.clone();
                        c["snapshot"]["orders"][i] = json!({ other: body });
                        out.push(("change_order_type", c.to_string()));
                    }
                }
            }
        }
    }
    out
}

const C09_SUBST: [char; 4] = ['7', 'x', ',', 'é'];
const C09_INSERT: [char; 3] = ['0', '"', 'é'];

impl Tamper {
    /// "A restore that succeeds always yields exactly the content that was snapshotted":
    /// the fault-free control.
    fn undamaged(&self, s: &SnapSpec) -> Option<Violation> {
        let hooks = SeqHooks::new(ClockCfg::default(), 3, 4);
        let _i = Installed::new(hooks);
        let r = guarded(|| {
            let pkg = PriceLevelSnapshotPackage::new(s.to_lib()).map_err(|e| e.to_string())?;
            let j = pkg.to_json().map_err(|e| e.to_string())?;
            PriceLevel::from_snapshot_json(&j)
                .map(|l| content_of_level(&l))
                .map_err(|e| e.to_string())
        });
        let mut want: Vec<OrderSpec> = s.orders.clone();
        want.sort_by_key(|o| (o.id, o.ts, o.vis, o.hid));
        match r {
            Ok(Ok(c)) if c.price == s.price && c.orders == want => None,
            other => Some(Violation {
                prop: "C09".into(),
                sig: "C09/undamaged-restore-differs".into(),
                at: 0,
                detail: format!(
                    "snapshot with price {} and orders {:?} packaged and restored without any fault gave {:?}",
                    s.price,
                    want.iter().map(|o| o.brief()).collect::<Vec<_>>(),
                    other.map(|r| r.map(|c| (c.price, c.orders.iter().map(|o| o.brief()).collect::<Vec<_>>())))
                ),
            }),
        }
    }

    fn packages(&self, seed: u64) -> Vec<String> {
        let hooks = SeqHooks::new(ClockCfg::default(), seed, 4);
        let _i = Installed::new(hooks);
        let mut out = vec![];
        for v in gen_values(seed) {
            if let Val::Package(s) = v {
                if let Ok(p) = PriceLevelSnapshotPackage::new(s.to_lib()) {
                    if let Ok(j) = p.to_json() {
                        out.push(j);
                    }
                }
            }
        }
        // one run in about forty carries a large package as well (26-75 orders, 4-15 kB): block,
        // buffer and chunk sizes of a digest or a reader lie far above the ordinary packages
        let mut r = Rng::stream(seed, 6);
        if r.chance(1, 40) {
            let n = 26 + r.below(50);
            let mut orders: Vec<OrderSpec> = vec![];
            let mut room: u64 = u64::MAX / 2;
            for i in 0..n {
                let mut o = crate::wire::any_order(&mut r);
                o.id.v = (o.id.v & !0xfff) | i as u128;
                if orders.iter().any(|x| x.id == o.id) {
                    continue;
                }
                o.vis = o.vis.min(room / 2);
                room -= o.vis;
                o.hid = o.hid.min(room / 2);
                room -= o.hid;
                orders.push(o);
            }
            let spec = SnapSpec {
                price: 1 + r.below(1 << 40),
                vis: 0,
                hid: 0,
                count: 0,
                orders,
            };
            if let Ok(p) = PriceLevelSnapshotPackage::new(spec.to_lib()) {
                if let Ok(j) = p.to_json() {
                    out.push(j);
                }
            }
        }
        out
    }

    fn run_package(&self, text: &str, seed: u64, explicit: Option<&str>) -> RunOut {
        let hooks = SeqHooks::new(ClockCfg::default(), 3, 4);
        let _i = Installed::new(hooks.clone());
        let mut out = RunOut::default();
        let mut faults: BTreeMap<&'static str, u64> = BTreeMap::new();
        let mut st = Stages::default();
        let orig_level = match guarded(|| PriceLevel::from_snapshot_json(text).map(|l| content_of_level(&l))) {
            Ok(Ok(c)) => c,
            other => {
                out.violations.push(Violation {
                    prop: "C09".into(),
                    sig: "C09/own-package-rejected".into(),
                    at: 0,
                    detail: format!("an undamaged package does not restore: {other:?}"),
                });
                return out;
            }
        };
        let orig_seq = match guarded(|| {
            PriceLevelSnapshotPackage::from_json(text)
                .and_then(|p| p.into_snapshot())
                .map(|s| SnapSpec::of(&s))
        }) {
            Ok(Ok(s)) => s,
            other => {
                out.violations.push(Violation {
                    prop: "C09".into(),
                    sig: "C09/own-package-rejected".into(),
                    at: 0,
                    detail: format!("an undamaged package does not validate: {other:?}"),
                });
                return out;
            }
        };
        let mut push = |out: &mut RunOut, v: Option<(String, String)>| {
            if let Some((sig, detail)) = v {
                if !out.violations.iter().any(|x| x.sig == sig) {
                    out.violations.push(Violation {
                        prop: "C09".into(),
                        sig,
                        at: 0,
                        detail,
                    });
                }
            }
        };
        if let Some(damaged) = explicit {
            out.inner_evals += 1;
            let must_fail = text.starts_with(damaged) && damaged.len() < text.len();
            let v = judge(&orig_level, &orig_seq, damaged, must_fail, &mut st);
            push(&mut out, v);
            return out;
        }
        out.inner_digests.push(dig(text));
        // char span of the checksum's hex digits: any edit inside it makes the stored checksum
        // differ from the digest of the content, so the restore must fail
        let cs_span: Option<(usize, usize)> = text.find("\"checksum\":\"").map(|b| {
            let start_b = b + "\"checksum\":\"".len();
            let end_b = text[start_b..].find('"').map(|e| start_b + e).unwrap_or(text.len());
            (text[..start_b].chars().count(), text[..end_b].chars().count())
        });
        // char spans of the digits of the price and of the three stored aggregates: any edit inside
        // them changes a checksummed number (or breaks the JSON)
        let mut num_spans: Vec<(usize, usize)> = vec![];
        for key in ["\"price\":", "\"visible_quantity\":", "\"hidden_quantity\":", "\"order_count\":"] {
            if let Some(b) = text.find(key) {
                let start_b = b + key.len();
                let end_b = text[start_b..]
                    .find(|c: char| !c.is_ascii_digit())
                    .map(|e| start_b + e)
                    .unwrap_or(text.len());
                if end_b > start_b {
                    num_spans.push((text[..start_b].chars().count(), text[..end_b].chars().count()));
                }
            }
        }
        // every single-position fault
        let mut singles: Vec<Fault> = vec![];
        enumerate_faults(text, &C09_SUBST, &C09_INSERT, &mut |f, m| {
            out.inner_evals += 1;
            let k: &'static str = match f.kind.as_str() {
                "truncate" => "torn_write(truncate)",
                "delete" => "delete_byte",
                "subst" => "substitute_byte",
                "bitflip" => "digit_flip",
                "swap" => "swap_adjacent",
                "insert" => "insert_byte",
                "caseflip" => "letter_case_flip",
                "dup_element" => "duplicated_list_element",
                _ => "duplicate_block",
            };
            *faults.entry(k).or_insert(0) += 1;
            let in_checksum = match cs_span {
                Some((a, b)) => match f.kind.as_str() {
                    "delete" | "subst" | "bitflip" => f.at >= a && f.at < b,
                    "swap" => f.at >= a && f.at + 1 < b,
                    "insert" => f.at >= a && f.at <= b,
                    "dup" => f.at >= a && f.at + f.len <= b,
                    _ => false,
                },
                None => false,
            };
            let in_number = num_spans.iter().any(|(a, b)| match f.kind.as_str() {
                "delete" | "subst" | "bitflip" => f.at >= *a && f.at < *b,
                "swap" => f.at >= *a && f.at + 1 < *b,
                "insert" => f.at > *a && f.at < *b,
                _ => false,
            });
            if in_checksum {
                *faults.entry("checksum_digit_damaged").or_insert(0) += 1;
            }
            if in_number {
                *faults.entry("header_number_damaged").or_insert(0) += 1;
            }
            let in_checksum = in_checksum || in_number;
            let v = judge(&orig_level, &orig_seq, m, f.kind == "truncate" || in_checksum, &mut st);
            push(&mut out, v);
            if singles.len() < 4000 {
                singles.push(f.clone());
            }
        });
        // structural edits
        let mut r = Rng::stream(seed, 6);
        for (k, m) in structural_edits(text, &mut r) {
            out.inner_evals += 1;
            *faults.entry(k).or_insert(0) += 1;
            // every edit that alters the price, a field of an order, the number or sequence of
            // the orders, a stored aggregate, the version or the checksum must be reported as an
            // error - also by an implementation that would "repair" it on the way in
            let must_fail = matches!(
                k,
                "checksum_truncated"
                    | "checksum_empty"
                    | "checksum_one_nibble"
                    | "change_version"
                    | "swap_orders"
                    | "reverse_orders"
                    | "drop_order"
                    | "duplicate_order"
                    | "edit_number"
                    | "shift_digits_between_numbers"
                    | "flip_side"
                    | "change_tif"
                    | "change_order_type"
            );
            let v = judge(&orig_level, &orig_seq, &m, must_fail, &mut st);
            push(&mut out, v);
        }
        // object-level tampering: the deserialized package is validated once (as a careful
        // caller would), then its content is edited in memory and restored from the object
        if let Ok(Ok(pkg)) = guarded(|| PriceLevelSnapshotPackage::from_json(text)) {
            let _ = guarded(|| pkg.validate());
            let n = pkg.snapshot.orders.len();
            let mut edits: Vec<(&'static str, PriceLevelSnapshotPackage)> = vec![];
            let mut e = pkg.clone();
            e.snapshot.price = e.snapshot.price.wrapping_add(1);
            edits.push(("object_price", e));
            let mut e = pkg.clone();
            e.snapshot.visible_quantity = e.snapshot.visible_quantity.wrapping_add(1);
            edits.push(("object_aggregate", e));
            let mut e = pkg.clone();
            e.snapshot.order_count = e.snapshot.order_count.wrapping_add(1);
            edits.push(("object_aggregate", e));
            let mut e = pkg.clone();
            e.version = e.version.wrapping_add(1);
            edits.push(("object_version", e));
            if n >= 1 {
                let mut e = pkg.clone();
                e.snapshot.orders.pop();
                edits.push(("object_drop_order", e));
                let mut e = pkg.clone();
                let first = e.snapshot.orders[0].clone();
                e.snapshot.orders.push(first);
                edits.push(("object_duplicate_order", e));
                let mut e = pkg.clone();
                let mut o = OrderSpec::of(&e.snapshot.orders[0]);
                o.vis = o.vis.wrapping_add(1);
                e.snapshot.orders[0] = std::sync::Arc::new(o.to_lib());
                edits.push(("object_order_field", e));
            }
            if n >= 2 {
                let mut e = pkg.clone();
                e.snapshot.orders.reverse();
                if SnapSpec::of(&e.snapshot) != SnapSpec::of(&pkg.snapshot) {
                    edits.push(("object_reorder", e));
                }
            }
            for (k, e) in edits {
                out.inner_evals += 1;
                *faults.entry(k).or_insert(0) += 1;
                let r = guarded(|| {
                    let v = e.validate().is_ok();
                    let l = PriceLevel::from_snapshot_package(e.clone()).is_ok();
                    (v, l)
                });
                let bad = match r {
                    Ok((false, false)) => None,
                    Ok((v, l)) => Some(format!(
                        "after {k} on a package object that had validated before: validate() ok={v}, from_snapshot_package ok={l}"
                    )),
                    Err(f) => Some(format!("{k}: {}", f.brief())),
                };
                if let Some(d) = bad {
                    push(
                        &mut out,
                        Some((
                            "C09/tampered-object-accepted".to_string(),
                            format!("{d}; package text {:?}", clip(text)),
                        )),
                    );
                }
            }
        }
        // sampled pairs of single faults
        if !singles.is_empty() {
            for _ in 0..300 {
                let a = &singles[r.below(singles.len() as u64) as usize];
                let b = &singles[r.below(singles.len() as u64) as usize];
                if a.kind == "truncate" || b.kind == "truncate" {
                    continue;
                }
                let m = apply_fault(&apply_fault(text, a), b);
                if m == text {
                    continue;
                }
                out.inner_evals += 1;
                *faults.entry("pair_of_faults").or_insert(0) += 1;
                let v = judge(&orig_level, &orig_seq, &m, false, &mut st);
                push(&mut out, v);
            }
        }
        out.faults = faults;
        let mut probes = BTreeMap::new();
        probes.insert("rejected_by_json_syntax_or_strict_deserializer", st.syntax_or_schema);
        probes.insert("rejected_by_version_gate", st.version);
        probes.insert("rejected_by_checksum", st.checksum);
        probes.insert("accepted_with_identical_content", st.same_content);
        if st.other_error > 0 {
            probes.insert("rejected_other", st.other_error);
        }
        out.probes = probes;
        out.digest = dig(text);
        out.steps = hooks.steps.load(std::sync::atomic::Ordering::Relaxed);
        out
    }

    fn merge(a: &mut RunOut, b: RunOut) {
        a.inner_evals += b.inner_evals;
        a.inner_digests.extend(b.inner_digests);
        for (k, v) in b.faults {
            *a.faults.entry(k).or_insert(0) += v;
        }
        for (k, v) in b.probes {
            *a.probes.entry(k).or_insert(0) += v;
        }
        for v in b.violations {
            if !a.violations.iter().any(|x| x.sig == v.sig) {
                a.violations.push(v);
            }
        }
        a.steps += b.steps;
        let mut d = Digest(a.digest);
        d.u64(b.digest);
        a.digest = d.finish();
    }
}

impl Check for Tamper {
    fn isolate(&self) -> bool {
        true
    }
    fn prop(&self) -> &'static str {
        "C09"
    }
    fn engine(&self) -> &'static str {
        "W"
    }
    fn level(&self) -> &'static str {
        "fault_enumeration"
    }
    fn runs(&self, tier: Tier) -> u64 {
        match tier {
            Tier::Quick => 400,
            Tier::Thorough => 8_000,
        }
    }
    fn run_seed(&self, seed: u64) -> RunOut {
        let mut out = RunOut::default();
        for p in self.packages(seed) {
            if p.len() > 2600 && !(p.len() > 4000 && p.len() < 40_000) {
                continue;
            }
            Tamper::merge(&mut out, self.run_package(&p, seed, None));
        }
        // control: an undamaged package restores exactly what was snapshotted
        for v in gen_values(seed) {
            if let Val::Package(s) = v {
                if let Some(v) = self.undamaged(&s) {
                    if !out.violations.iter().any(|x| x.sig == v.sig) {
                        out.violations.push(v);
                    }
                }
                out.inner_evals += 1;
            }
        }
        out
    }
    fn case_of_seed(&self, seed: u64) -> Value {
        json!({"packages": self.packages(seed), "seed": seed.to_string()})
    }
    fn run_case(&self, case: &Value) -> Result<RunOut, String> {
        if let (Some(o), Some(d)) = (case["original"].as_str(), case["damaged"].as_str()) {
            return Ok(self.run_package(o, 0, Some(d)));
        }
        if case.get("spec").is_some() {
            let spec: SnapSpec =
                serde_json::from_value(case["spec"].clone()).map_err(|e| e.to_string())?;
            let mut out = RunOut::default();
            if let Some(v) = self.undamaged(&spec) {
                out.violations.push(v);
            }
            return Ok(out);
        }
        if let Some(d) = case["damaged_only"].as_str() {
            // crash triage case: the text alone (restoring it brought the process down)
            let mut out = RunOut::default();
            let r = guarded(|| PriceLevel::from_snapshot_json(d).is_ok());
            if let Err(f) = r {
                out.violations.push(Violation {
                    prop: "C09".into(),
                    sig: "C09/restore-panics".into(),
                    at: 0,
                    detail: format!("from_snapshot_json {} on {:?}", f.brief(), clip(d)),
                });
            }
            let _ = guarded(|| serde_json::from_str::<PriceLevelSnapshotPackage>(d).is_ok());
            return Ok(out);
        }
        let pk: Vec<String> =
            serde_json::from_value(case["packages"].clone()).map_err(|e| e.to_string())?;
        let seed: u64 = case["seed"].as_str().and_then(|s| s.parse().ok()).unwrap_or(0);
        let mut out = RunOut::default();
        for p in pk {
            Tamper::merge(&mut out, self.run_package(&p, seed, None));
        }
        Ok(out)
    }
    fn minimise(&self, case: &Value, sig: &str) -> (Value, MinStats) {
        if sig == "C09/undamaged-restore-differs" {
            let seed: u64 = case["seed"].as_str().and_then(|s| s.parse().ok()).unwrap_or(0);
            for v in gen_values(seed) {
                if let Val::Package(mut s) = v {
                    if self.undamaged(&s).is_some() {
                        // drop orders while it still fails
                        let mut i = 0;
                        while i < s.orders.len() {
                            let mut t = s.clone();
                            t.orders.remove(i);
                            if self.undamaged(&t).is_some() {
                                s = t;
                            } else {
                                i += 1;
                            }
                        }
                        return (
                            json!({"spec": s}),
                            MinStats {
                                attempts: 1,
                                from_size: 1,
                                to_size: 1,
                            },
                        );
                    }
                }
            }
            return no_min(case);
        }
        // find the first damaged text with this signature and report (original, damaged)
        let Ok(pk) = serde_json::from_value::<Vec<String>>(case["packages"].clone()) else {
            return no_min(case);
        };
        let seed: u64 = case["seed"].as_str().and_then(|s| s.parse().ok()).unwrap_or(0);
        let mut attempts = 0u64;
        for p in &pk {
            let mut found: Option<String> = None;
            let mut cands: Vec<String> = vec![];
            enumerate_faults(p, &C09_SUBST, &C09_INSERT, &mut |_, m| cands.push(m.to_string()));
            let mut r = Rng::stream(seed, 6);
            cands.extend(structural_edits(p, &mut r).into_iter().map(|x| x.1));
            for m in cands {
                attempts += 1;
                // "accepted although it had to be rejected": any successful restore of a text that
                // differs from the original counts when that is the signature looked for
                let o = if sig == "C09/damaged-package-accepted" {
                    let mut o = RunOut::default();
                    let ok = guarded(|| PriceLevel::from_snapshot_json(&m).is_ok()).unwrap_or(false);
                    if ok && m != *p {
                        o.violations.push(Violation {
                            prop: "C09".into(),
                            sig: sig.to_string(),
                            at: 0,
                            detail: String::new(),
                        });
                    }
                    o
                } else {
                    self.run_package(p, seed, Some(&m))
                };
                if o.violations.iter().any(|v| v.sig == sig) {
                    found = Some(m);
                    break;
                }
            }
            if let Some(m) = found {
                return (
                    json!({"original": p, "damaged": m}),
                    MinStats {
                        attempts,
                        from_size: pk.len(),
                        to_size: 1,
                    },
                );
            }
        }
        no_min(case)
    }
    fn rule(&self) -> String {
        "engine W, faulty storage: per run the packages of that seed's value population (boundary-value orders of all 7 types, both id formats, 0-5 orders, plus the level reached by a simulated history) are serialised by the library; for EACH package text every single-position fault is enumerated completely (torn write at every byte, deletion, substitution by a digit / letter / ',' / multi-byte char, low-bit digit flip, adjacent swap, insertion of 3 chars at every gap, duplicated blocks), then all structural edits of the parsed tree (swap / reverse / drop / duplicate orders, every number +-1 / 0 / MAX, version, checksum upper-cased / truncated / one nibble, renamed / unknown / duplicate keys, flipped side, alias spelling, changed order type) and 300 sampled fault pairs; both entry points (from_snapshot_json; serde -> into_snapshot); oracle: Err, or content identical to the undamaged restore; every proper prefix must be Err; evaluations = damaged restores judged, distinct non-trivial = distinct package texts whose fault space was enumerated".into()
    }
    fn assumptions(&self) -> Vec<String> {
        vec![
            "SHA-256 collisions are not expected; sha2 and serde_json are trusted".into(),
            "an attacker who recomputes the checksum is out of scope (the property is about integrity, not authenticity)".into(),
        ]
    }
}

pub fn make(prop: &str) -> Option<Box<dyn Check>> {
    match prop {
        "C09" => Some(Box::new(Tamper)),
        "C16" => Some(Box::new(RoundTrip {
            prop: "C16",
            codec: Codec::Text,
        })),
        "C17" => Some(Box::new(RoundTrip {
            prop: "C17",
            codec: Codec::Json,
        })),
        "C18" => Some(Box::new(Totality)),
        _ => None,
    }
}
