//! Checks decided by engine T (concurrent programs): C03 C08 C12 C13 (and the concurrent
//! half of C15).

use crate::conc::{Program, TKnobs, TOutcome, run_program};
use crate::core::ClockCfg;
use crate::driver::{Check, MinStats, RunOut, Tier};
use crate::prng::Rng;
use crate::sched::Strategy;
use crate::seq::Violation;
use crate::spec::*;
use serde_json::{Value, json};

#[derive(Clone, Debug)]
pub struct TProfile {
    /// weights: add, match, cancel, amend(qty), move(price), replace/price+qty (same price), read
    pub w: [u32; 7],
    pub hot: u64, // percent of targets aimed at the hot (front) order
}

pub struct TCheck {
    pub prop: &'static str,
    pub profile: TProfile,
    pub quick: u64,
    pub thorough: u64,
    pub rule: &'static str,
}

pub fn gen_strategy(k: &mut Rng, n_threads: usize) -> Strategy {
    match k.below(100) {
        0..=14 => Strategy::Uniform,
        15..=29 => Strategy::Sticky(50),
        30..=44 => Strategy::Sticky(80),
        45..=59 => Strategy::Sticky(95),
        60..=79 => Strategy::Pct(1 + k.below(3) as u8),
        80..=89 => Strategy::Stall {
            tid: k.below(n_threads as u64) as u8,
            at: 1 + k.below(14) as u16,
            hold: 10 + k.below(60) as u16,
        },
        _ => Strategy::OpBoundary,
    }
}

pub fn gen_clock(f: &mut Rng) -> ClockCfg {
    let mut clock = ClockCfg {
        base: 1_700_000_000_000,
        tick: *f.pick(&[0u64, 1, 1, 7, 1000]),
        jumps: vec![],
    };
    if f.chance(1, 2) {
        for _ in 0..1 + f.below(3) {
            let at = f.below(60);
            let v = match f.below(5) {
                0 => 0,
                1 => u64::MAX - f.below(50),
                2 => clock.base - 3_600_000,
                3 => clock.base + 86_400_000,
                _ => f.next(),
            };
            clock.jumps.push((at, v));
        }
    }
    clock
}

fn small_order(w: &mut Rng, id: IdS, price: u64, ts: u64, plain_only: bool) -> OrderSpec {
    let kind = if plain_only {
        Kind::Standard
    } else {
        *w.pick(&[
            Kind::Standard,
            Kind::Standard,
            Kind::Iceberg,
            Kind::Iceberg,
            Kind::Reserve,
            Kind::Reserve,
            Kind::PostOnly,
            Kind::TrailingStop,
            Kind::Pegged,
            Kind::MarketToLimit,
        ])
    };
    let vis = 1 + w.below(12);
    let mut o = OrderSpec {
        kind,
        id,
        price,
        vis,
        hid: 0,
        buy: w.chance(1, 2),
        ts,
        tif: Tif::Gtc,
        p1: 0,
        p2: 0,
        p2_some: false,
        off: 0,
        peg: 0,
        auto: false,
    };
    match kind {
        Kind::Iceberg => {
            o.hid = w.below(21);
            // now and then an iceberg that displays nothing (as after an amend to 0): it can
            // neither trade nor replenish and is passed over by every match
            if o.hid > 0 && w.chance(1, 10) {
                o.vis = 0;
            }
        }
        Kind::Reserve => {
            o.hid = w.below(21);
            o.auto = w.chance(2, 3);
            o.p2_some = w.chance(3, 4);
            o.p2 = 1 + w.below(8);
            o.p1 = w.below(6);
            // now and then fully hidden but replenishable (first visit shows the first tranche)
            if o.auto && o.hid > 0 && w.chance(1, 8) {
                o.vis = 0;
            }
        }
        Kind::TrailingStop => {
            o.p1 = 5;
            o.p2 = 90;
        }
        Kind::Pegged => {
            o.off = -2;
            o.peg = 1;
        }
        _ => {}
    }
    o
}

pub fn gen_program(seed: u64, prof: &TProfile) -> Program {
    let mut k = Rng::stream(seed, 1);
    let mut w = Rng::stream(seed, 2);
    let mut f = Rng::stream(seed, 4);
    let price = *k.pick(&[1u64, 100, 100, 10_000]);
    let n_pre = match k.below(10) {
        0 => 0,
        1 => 1,
        _ => 2 + k.below(4) as usize,
    };
    let deep = crate::driver::DEEP.load(std::sync::atomic::Ordering::Relaxed) && k.chance(1, 6);
    let n_thr = if deep {
        2 + k.below(4) as usize
    } else {
        2 + k.below(3) as usize
    };
    let mut next_id = 0u128;
    let id_fmt = k.below(4);
    let mut fresh = |w: &mut Rng| {
        next_id += 1;
        match id_fmt {
            // pairs of ids with the same 128 bits, one a UUID and one a ULID (0 = nil included)
            3 => IdS {
                ulid: next_id % 2 == 0,
                v: (next_id - 1) / 2,
            },
            0 => IdS {
                ulid: false,
                v: next_id,
            },
            1 => IdS {
                ulid: true,
                v: next_id,
            },
            _ => IdS {
                ulid: w.chance(1, 2),
                v: (w.u128() & !0xffff) | next_id,
            },
        }
    };
    let ts_same = k.chance(1, 4);
    let mut preload = vec![];
    for i in 0..n_pre {
        let id = fresh(&mut w);
        preload.push(small_order(
            &mut w,
            id,
            price,
            if ts_same { 7 } else { 10 + i as u64 },
            false,
        ));
    }
    // ids every op may aim at: preloaded, added by any thread (decided up front), one absent
    let mut planned_adds: Vec<Vec<OrderSpec>> = vec![vec![]; n_thr];
    let mut threads: Vec<Vec<Op>> = vec![vec![]; n_thr];
    let mut lens = vec![];
    for _ in 0..n_thr {
        lens.push(1 + k.below(if deep { 8 } else { 4 }) as usize);
    }
    // first decide op kinds
    let mut kinds: Vec<Vec<usize>> = vec![];
    for t in 0..n_thr {
        let mut v = vec![];
        for _ in 0..lens[t] {
            v.push(w.weighted(&prof.w));
        }
        kinds.push(v);
    }
    for t in 0..n_thr {
        for kd in &kinds[t] {
            if *kd == 0 {
                let id = fresh(&mut w);
                planned_adds[t].push(small_order(&mut w, id, price, 100 + t as u64, false));
            }
        }
    }
    let mut pool: Vec<IdS> = preload.iter().map(|o| o.id).collect();
    for t in 0..n_thr {
        for o in &planned_adds[t] {
            pool.push(o.id);
        }
    }
    let hot = preload.first().map(|o| o.id).unwrap_or(*pool.first().unwrap_or(&IdS {
        ulid: false,
        v: 0xdead,
    }));
    let absent = IdS {
        ulid: false,
        v: 0xdead,
    };
    let mut target = |w: &mut Rng| -> IdS {
        let r = w.below(100);
        if pool.is_empty() {
            absent
        } else if r < prof.hot {
            hot
        } else if r < 95 {
            *w.pick(&pool)
        } else {
            absent
        }
    };
    for t in 0..n_thr {
        let mut ai = 0;
        for kd in &kinds[t] {
            let op = match *kd {
                0 => {
                    let o = planned_adds[t][ai];
                    ai += 1;
                    Op::Add(o)
                }
                1 => Op::Match {
                    qty: 1 + w.below(30),
                    // now and then the taker carries the id of an order of this program
                    taker: if w.chance(1, 12) && !pool.is_empty() {
                        *w.pick(&pool)
                    } else {
                        IdS {
                            ulid: false,
                            v: 0x7a6b_0000 + (t as u128) * 16 + w.below(16) as u128,
                        }
                    },
                },
                2 => Op::Upd(UpdSpec {
                    kind: UpdKind::Cancel,
                    id: target(&mut w),
                    price: 0,
                    qty: 0,
                    buy: false,
                }),
                3 => Op::Upd(UpdSpec {
                    kind: UpdKind::Qty,
                    id: target(&mut w),
                    price: 0,
                    qty: 1 + w.below(15),
                    buy: false,
                }),
                4 => Op::Upd(UpdSpec {
                    kind: UpdKind::Price,
                    id: target(&mut w),
                    price: price + 1,
                    qty: 0,
                    buy: false,
                }),
                5 => Op::Upd(UpdSpec {
                    kind: if w.chance(1, 2) {
                        UpdKind::Replace
                    } else {
                        UpdKind::PriceQty
                    },
                    id: target(&mut w),
                    price: if w.chance(3, 4) { price } else { price + 2 },
                    qty: 1 + w.below(15),
                    buy: w.chance(1, 2),
                }),
                _ => Op::Read(w.below(3) as u8),
            };
            threads[t].push(op);
        }
    }
    let strategy = gen_strategy(&mut k, n_thr);
    let churn: Vec<IdS> = if k.chance(1, 4) && !preload.is_empty() {
        vec![preload[k.below(preload.len() as u64) as usize].id]
    } else {
        vec![]
    };
    Program {
        churn,
        knobs: TKnobs {
            price,
            hash_seed: k.next(),
            shards: *k.pick(&[2usize, 4, 16, 64]),
            clock: gen_clock(&mut f),
            namespace: if k.chance(1, 2) {
                0x6ba7b8109dad11d180b400c04fd430c8
            } else {
                k.u128()
            },
            hold: k.chance(1, 3),
        },
        preload,
        threads,
        strategy,
        sched_seed: Rng::stream(seed, 3).next(),
    }
}

fn to_runout(prop: &str, o: TOutcome, strategy: &'static str, clock_jumps_cfg: usize) -> RunOut {
    let mut faults = std::collections::BTreeMap::new();
    if o.clock_jumps > 0 {
        faults.insert("clock_jump", o.clock_jumps);
    }
    let _ = clock_jumps_cfg;
    if strategy == "stall" {
        faults.insert("stalled_thread", 1);
    }
    faults.insert("preemptions", o.switches);
    let mut violations: Vec<Violation> = o
        .violations
        .iter()
        .filter(|v| v.prop == prop)
        .cloned()
        .collect();
    if let Some(e) = &o.harness_error {
        violations.push(Violation {
            prop: prop.into(),
            sig: "HARNESS/watchdog".into(),
            at: 0,
            detail: e.clone(),
        });
    }
    RunOut {
        violations,
        digest: o.digest,
        nontrivial: o.contended,
        probes: o.probes.clone(),
        steps: o.steps,
        clock_ms: o.clock_ms,
        faults,
        strategy: Some(strategy),
        inner_evals: 0,
        inner_digests: vec![],
        state_digests: vec![o.state_digest],
    }
}

fn has(o: &TOutcome, sig: &str) -> bool {
    o.violations.iter().any(|v| v.sig == sig)
}

/// Program + schedule minimisation (DESIGN §6).
pub fn minimise_program(p0: &Program, sig: &str) -> (Program, u64) {
    let mut attempts = 0u64;
    // normalise to an explicit schedule
    let first = run_program(p0);
    attempts += 1;
    if !has(&first, sig) {
        return (p0.clone(), attempts);
    }
    let mut best = p0.clone();
    best.strategy = Strategy::Replay(first.schedule.clone());
    let try_prog = |cand: &Program, attempts: &mut u64| -> Option<Program> {
        // old schedule with fallback first, then fresh schedules
        let o = run_program(cand);
        *attempts += 1;
        if has(&o, sig) {
            let mut c = cand.clone();
            c.strategy = Strategy::Replay(o.schedule);
            return Some(c);
        }
        let mut r = Rng::new(crate::prng::tag_of(&format!("{:?}", cand.threads)) ^ 0x5eed);
        for j in 0..160u64 {
            let mut c = cand.clone();
            c.strategy = match j % 4 {
                0 => Strategy::Sticky(80),
                1 => Strategy::Sticky(95),
                2 => Strategy::Uniform,
                _ => Strategy::Pct(2),
            };
            c.sched_seed = r.next();
            let o = run_program(&c);
            *attempts += 1;
            if has(&o, sig) {
                c.strategy = Strategy::Replay(o.schedule);
                return Some(c);
            }
        }
        None
    };
    // (a) drop ops, threads, preloaded orders
    let mut progress = true;
    while progress && attempts < 6000 {
        progress = false;
        // ops
        'ops: for t in 0..best.threads.len() {
            for i in 0..best.threads[t].len() {
                let mut c = best.clone();
                c.threads[t].remove(i);
                if c.threads.iter().all(|x| x.is_empty()) {
                    continue;
                }
                if let Some(n) = try_prog(&c, &mut attempts) {
                    best = n;
                    progress = true;
                    break 'ops;
                }
            }
        }
        if progress {
            continue;
        }
        // empty threads
        if let Some(t) = best.threads.iter().position(|x| x.is_empty()) {
            if best.threads.len() > 1 {
                let mut c = best.clone();
                c.threads.remove(t);
                // thread ids shift: search fresh schedules
                c.strategy = Strategy::Sticky(80);
                if let Some(n) = try_prog(&c, &mut attempts) {
                    best = n;
                    progress = true;
                    continue;
                }
            }
        }
        for i in 0..best.preload.len() {
            if best.preload.len() <= 1 {
                break;
            }
            let mut c = best.clone();
            c.preload.remove(i);
            if let Some(n) = try_prog(&c, &mut attempts) {
                best = n;
                progress = true;
                break;
            }
        }
    }
    // (b) fewer context switches
    if let Strategy::Replay(list) = best.strategy.clone() {
        let mut list = list;
        let mut i = list.len();
        while i > 1 && attempts < 9000 {
            i -= 1;
            if i < list.len() && list[i] != list[i - 1] {
                let mut l2 = list.clone();
                l2[i] = l2[i - 1];
                let mut c = best.clone();
                c.strategy = Strategy::Replay(l2);
                let o = run_program(&c);
                attempts += 1;
                if has(&o, sig) {
                    list = o.schedule.clone();
                    best.strategy = Strategy::Replay(list.clone());
                    i = i.min(list.len());
                }
            }
        }
    }
    // (c) simplify orders and quantities under the fixed schedule
    let mut changed = true;
    while changed && attempts < 11000 {
        changed = false;
        let mut cands: Vec<Program> = vec![];
        for i in 0..best.preload.len() {
            let o = best.preload[i];
            if o.kind != Kind::Standard {
                let mut c = best.clone();
                c.preload[i].kind = Kind::Standard;
                c.preload[i].hid = 0;
                cands.push(c);
            }
            for nv in [1, o.vis / 2] {
                if nv > 0 && nv < o.vis {
                    let mut c = best.clone();
                    c.preload[i].vis = nv;
                    cands.push(c);
                }
            }
            for nh in [0, o.hid / 2] {
                if nh < o.hid {
                    let mut c = best.clone();
                    c.preload[i].hid = nh;
                    cands.push(c);
                }
            }
        }
        for t in 0..best.threads.len() {
            for i in 0..best.threads[t].len() {
                match &best.threads[t][i] {
                    Op::Match { qty, taker } if *qty > 1 => {
                        for nq in [1, qty / 2] {
                            if nq > 0 && nq < *qty {
                                let mut c = best.clone();
                                c.threads[t][i] = Op::Match {
                                    qty: nq,
                                    taker: *taker,
                                };
                                cands.push(c);
                            }
                        }
                    }
                    Op::Upd(u) if u.qty > 1 => {
                        let mut c = best.clone();
                        let mut u2 = *u;
                        u2.qty = 1;
                        c.threads[t][i] = Op::Upd(u2);
                        cands.push(c);
                    }
                    _ => {}
                }
            }
        }
        if best.knobs.clock != ClockCfg::default() {
            let mut c = best.clone();
            c.knobs.clock = ClockCfg::default();
            cands.push(c);
        }
        if !best.churn.is_empty() {
            let mut c = best.clone();
            c.churn.clear();
            cands.push(c);
        }
        for c in cands {
            let o = run_program(&c);
            attempts += 1;
            if has(&o, sig) {
                best = c;
                best.strategy = Strategy::Replay(o.schedule);
                changed = true;
                break;
            }
        }
    }
    (best, attempts)
}

fn prog_size(p: &Program) -> usize {
    p.preload.len() + p.threads.iter().map(|t| t.len()).sum::<usize>()
}

impl Check for TCheck {
    fn prop(&self) -> &'static str {
        self.prop
    }
    fn engine(&self) -> &'static str {
        "T"
    }
    fn runs(&self, tier: Tier) -> u64 {
        match tier {
            Tier::Quick => self.quick,
            Tier::Thorough => self.thorough,
        }
    }
    fn run_seed(&self, seed: u64) -> RunOut {
        let p = gen_program(seed, &self.profile);
        let name = p.strategy.name();
        let nj = p.knobs.clock.jumps.len();
        to_runout(self.prop, run_program(&p), name, nj)
    }
    fn case_of_seed(&self, seed: u64) -> Value {
        json!({"program": gen_program(seed, &self.profile)})
    }
    fn run_case(&self, case: &Value) -> Result<RunOut, String> {
        let p: Program =
            serde_json::from_value(case["program"].clone()).map_err(|e| e.to_string())?;
        let name = p.strategy.name();
        Ok(to_runout(self.prop, run_program(&p), name, 0))
    }
    fn minimise(&self, case: &Value, sig: &str) -> (Value, MinStats) {
        let Ok(p) = serde_json::from_value::<Program>(case["program"].clone()) else {
            return (
                case.clone(),
                MinStats {
                    attempts: 0,
                    from_size: 0,
                    to_size: 0,
                },
            );
        };
        let from = prog_size(&p);
        let (m, attempts) = minimise_program(&p, sig);
        let to = prog_size(&m);
        (
            json!({"program": m}),
            MinStats {
                attempts,
                from_size: from,
                to_size: to,
            },
        )
    }
    fn rule(&self) -> String {
        format!("{} | program generator: ids are small integers, random bits, or UUID / ULID pairs with equal bits; a matcher's taker id is sometimes the id of an order of the program; in a third of the runs the driver keeps the Arcs returned for the pre-loaded orders alive to the end", self.rule)
    }
    fn assumptions(&self) -> Vec<String> {
        vec![
            "sequentially consistent memory; one DashMap / SegQueue / atomic call = one atomic step (their own linearizability is trusted)".into(),
            "a thread may be descheduled while it holds a map guard (the simulator keeps the table of held shard locks: a thread that needs a conflicting lock waits cooperatively, everything else interleaves); an iteration is modelled as holding every shard, which only removes interleavings".into(),
            "order ids unique per program; positive quantities; no id is added twice".into(),
            "schedules are sampled by seeded strategies (uniform, sticky, PCT, stall, op-boundary), not enumerated".into(),
        ]
    }
}

pub fn make(prop: &str) -> Option<TCheck> {
    Some(match prop {
        "C03" => TCheck {
            prop: "C03",
            profile: TProfile {
                w: [2, 4, 2, 5, 1, 2, 1],
                hot: 55,
            },
            quick: 400_000,
            thorough: 8_000_000,
            rule: "engine T: 2-4 threads x 1-4 ops (add/match/cancel/amend/move/replace/read) on a level pre-loaded with 2-5 orders, one scheduling point before every atomic, map and queue operation, schedule drawn from a seeded strategy; at quiescence aggregates == sums over the listing and per-order conservation (supplied = executed + handed back + resting + discarded) from the recorded history; non-trivial = two threads touched the same order id with overlapping operation intervals; distinct = distinct digest of the full event log (every step, every response)",
        },
        "C08" => TCheck {
            prop: "C08",
            profile: TProfile {
                w: [4, 4, 2, 2, 1, 1, 1],
                hot: 40,
            },
            quick: 400_000,
            thorough: 8_000_000,
            rule: "engine T programs followed by a draining match from the driver under a step budget; after the drain nothing with displayed quantity is listed, aggregates == sums, and every order listed at quiescence is accounted for by the drain's transactions; plus programs of concurrent push/pop/remove/find on a bare OrderQueue with an exactly-once hand-out ledger; non-trivial as C03",
        },
        "C12" => TCheck {
            prop: "C12",
            profile: TProfile {
                w: [4, 4, 2, 4, 1, 2, 3],
                hot: 45,
            },
            quick: 400_000,
            thorough: 8_000_000,
            rule: "engine T with a stop-the-world observer: before every single instrumented step of every thread the three aggregates are read and compared with 0 <= value <= total ever supplied (adds and amend quantities invoked so far); reader operations inside the programs are held to the same bound; non-trivial as C03",
        },
        "C13" => TCheck {
            prop: "C13",
            profile: TProfile {
                w: [1, 5, 4, 4, 1, 1, 0],
                hot: 70,
            },
            quick: 400_000,
            thorough: 8_000_000,
            rule: "engine T programs in which cancels / quantity amends race matches, amends and cancels on the same order; the recorded history (invocation, response and every map step with its outcome, stamped with global step numbers) yields each order's book interval; a not-found inside the interval, or a reported success that did not take the order out / after which the order re-appears, is untruthful; the holder at the failing lookup classifies it; non-trivial as C03",
        },
        "C15T" => TCheck {
            prop: "C15",
            profile: TProfile {
                w: [3, 4, 2, 2, 2, 1, 1],
                hot: 40,
            },
            quick: 400_000,
            thorough: 8_000_000,
            rule: "",
        },
        _ => return None,
    })
}
