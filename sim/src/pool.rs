//! Per-worker pool of persistent program threads (spawning OS threads per run makes all
//! workers contend on the process's address-space lock).

use std::any::Any;
use std::cell::RefCell;
use std::sync::mpsc::{Receiver, Sender, channel};

type Job = Box<dyn FnOnce() -> Box<dyn Any + Send> + Send>;

pub struct PoolThread {
    tx: Sender<Job>,
    rx: Receiver<Result<Box<dyn Any + Send>, ()>>,
}

impl PoolThread {
    fn new() -> PoolThread {
        let (tx, jrx) = channel::<Job>();
        let (rtx, rx) = channel();
        std::thread::Builder::new()
            .name("plsim-prog".into())
            .spawn(move || {
                while let Ok(job) = jrx.recv() {
                    let r = std::panic::catch_unwind(std::panic::AssertUnwindSafe(job));
                    if rtx.send(r.map_err(|_| ())).is_err() {
                        break;
                    }
                }
            })
            .expect("spawn pool thread");
        PoolThread { tx, rx }
    }
}

thread_local! {
    static POOL: RefCell<Vec<PoolThread>> = const { RefCell::new(Vec::new()) };
}

/// Run the jobs concurrently on this worker's pool threads; `between` runs on the calling
/// thread after all jobs were submitted; results come back in job order (`None` = the job panicked
/// or the pool thread is wedged).
pub fn run_jobs<R: Send + 'static>(
    jobs: Vec<Box<dyn FnOnce() -> R + Send>>,
    between: impl FnOnce() -> bool,
) -> Vec<Option<R>> {
    let n = jobs.len();
    POOL.with(|p| {
        let mut p = p.borrow_mut();
        while p.len() < n {
            p.push(PoolThread::new());
        }
        for (i, j) in jobs.into_iter().enumerate() {
            let job: Job = Box::new(move || Box::new(j()) as Box<dyn Any + Send>);
            p[i].tx.send(job).expect("pool thread alive");
        }
        let ok = between();
        let mut out = Vec::with_capacity(n);
        if !ok {
            // wedged program threads cannot be reclaimed: drop the pool (threads leak) and report
            p.clear();
            for _ in 0..n {
                out.push(None);
            }
            return out;
        }
        for i in 0..n {
            match p[i].rx.recv() {
                Ok(Ok(b)) => out.push(b.downcast::<R>().ok().map(|b| *b)),
                _ => out.push(None),
            }
        }
        out
    })
}
