//! Hand-written PRNG (splitmix64 seeding, xoshiro256**), identical on every platform.

#[inline]
pub fn splitmix64(x: &mut u64) -> u64 {
    *x = x.wrapping_add(0x9E37_79B9_7F4A_7C15);
    let mut z = *x;
    z = (z ^ (z >> 30)).wrapping_mul(0xBF58_476D_1CE4_E5B9);
    z = (z ^ (z >> 27)).wrapping_mul(0x94D0_49BB_1331_11EB);
    z ^ (z >> 31)
}

/// One-shot mixer: derive a run seed from (base, tag, index).
pub fn mix(base: u64, tag: u64, idx: u64) -> u64 {
    let mut s = base ^ tag.rotate_left(17) ^ idx.wrapping_mul(0xD134_2543_DE82_EF95);
    let a = splitmix64(&mut s);
    let b = splitmix64(&mut s);
    a ^ b.rotate_left(29)
}

pub fn tag_of(s: &str) -> u64 {
    let mut h: u64 = 0xcbf2_9ce4_8422_2325;
    for b in s.bytes() {
        h ^= b as u64;
        h = h.wrapping_mul(0x100_0000_01b3);
    }
    h
}

#[derive(Clone, Debug)]
pub struct Rng {
    s: [u64; 4],
}

impl Rng {
    pub fn new(seed: u64) -> Self {
        let mut x = seed;
        let s = [
            splitmix64(&mut x),
            splitmix64(&mut x),
            splitmix64(&mut x),
            splitmix64(&mut x),
        ];
        Rng { s }
    }
    /// Independent sub-stream `k` of this seed (knobs, workload, schedule, faults …).
    pub fn stream(seed: u64, k: u64) -> Self {
        Rng::new(mix(seed, 0x5354_5245_414d, k))
    }
    #[inline]
    pub fn next(&mut self) -> u64 {
        let r = self.s[1].wrapping_mul(5).rotate_left(7).wrapping_mul(9);
        let t = self.s[1] << 17;
        self.s[2] ^= self.s[0];
        self.s[3] ^= self.s[1];
        self.s[1] ^= self.s[2];
        self.s[0] ^= self.s[3];
        self.s[2] ^= t;
        self.s[3] = self.s[3].rotate_left(45);
        r
    }
    /// Uniform in 0..n (n > 0).
    #[inline]
    pub fn below(&mut self, n: u64) -> u64 {
        debug_assert!(n > 0);
        // multiply-shift; bias negligible for our n
        ((self.next() as u128 * n as u128) >> 64) as u64
    }
    /// Uniform in lo..=hi.
    #[inline]
    pub fn range(&mut self, lo: u64, hi: u64) -> u64 {
        if hi <= lo {
            return lo;
        }
        let span = hi - lo;
        if span == u64::MAX {
            return self.next();
        }
        lo + self.below(span + 1)
    }
    #[inline]
    pub fn chance(&mut self, num: u64, den: u64) -> bool {
        self.below(den) < num
    }
    #[inline]
    pub fn pick<'a, T>(&mut self, xs: &'a [T]) -> &'a T {
        &xs[self.below(xs.len() as u64) as usize]
    }
    /// Pick an index according to integer weights (at least one > 0).
    pub fn weighted(&mut self, w: &[u32]) -> usize {
        let total: u64 = w.iter().map(|x| *x as u64).sum();
        let mut r = self.below(total.max(1));
        for (i, x) in w.iter().enumerate() {
            if r < *x as u64 {
                return i;
            }
            r -= *x as u64;
        }
        w.len() - 1
    }
    pub fn u128(&mut self) -> u128 {
        ((self.next() as u128) << 64) | self.next() as u128
    }
}

/// Order-independent-free, streaming 64-bit digest (FNV-1a over u64 words with a final mix).
#[derive(Clone, Debug)]
pub struct Digest(pub u64);

impl Default for Digest {
    fn default() -> Self {
        Digest(0xcbf2_9ce4_8422_2325)
    }
}

impl Digest {
    #[inline]
    pub fn u64(&mut self, v: u64) {
        let mut x = self.0 ^ v;
        x = x.wrapping_mul(0x100_0000_01b3);
        x ^= x >> 29;
        x = x.wrapping_mul(0xBF58_476D_1CE4_E5B9);
        self.0 = x ^ (x >> 32);
    }
    pub fn str(&mut self, s: &str) {
        self.u64(s.len() as u64);
        let b = s.as_bytes();
        let mut i = 0;
        while i + 8 <= b.len() {
            self.u64(u64::from_le_bytes(b[i..i + 8].try_into().unwrap()));
            i += 8;
        }
        let mut last = 0u64;
        for (k, x) in b[i..].iter().enumerate() {
            last |= (*x as u64) << (8 * k);
        }
        self.u64(last);
    }
    pub fn finish(&self) -> u64 {
        let mut x = self.0;
        splitmix64(&mut x)
    }
}
