//! Reference statements written from the property texts (DESIGN.md A.3): the
//! per-order matching rule, and small helpers shared by the monitors.

use crate::spec::{Kind, Order, OrderSpec};

pub const DEFAULT_REPLENISH: u64 = 80;

#[derive(Clone, Debug, PartialEq, Eq)]
pub struct RuleOut {
    pub consumed: u64,
    /// `None` = the order leaves the book
    pub next: Option<OrderSpec>,
    /// quantity moved from hidden to displayed
    pub moved: u64,
    pub remaining: u64,
    /// hidden quantity discarded because a reserve order left with hidden > 0
    pub discarded: u64,
}

/// The documented per-order rule (C05), independent of `match_against`.
pub fn rule(o: &OrderSpec, q: u64) -> RuleOut {
    let d = o.vis;
    let h = o.hid;
    let consumed = q.min(d);
    let remaining = q - consumed;
    let d1 = d - consumed;
    let exhausted = consumed == d;
    match o.kind {
        Kind::Iceberg => {
            if exhausted {
                if h == 0 {
                    RuleOut {
                        consumed,
                        next: None,
                        moved: 0,
                        remaining,
                        discarded: 0,
                    }
                } else {
                    let t = h.min(d);
                    RuleOut {
                        consumed,
                        next: Some(o.with_q(t, h - t)),
                        moved: t,
                        remaining,
                        discarded: 0,
                    }
                }
            } else {
                RuleOut {
                    consumed,
                    next: Some(o.with_q(d1, h)),
                    moved: 0,
                    remaining,
                    discarded: 0,
                }
            }
        }
        Kind::Reserve => {
            let amount = if o.p2_some { o.p2 } else { DEFAULT_REPLENISH };
            let amt = amount.min(h);
            let thr = if o.auto && o.p1 == 0 { 1 } else { o.p1 };
            if exhausted {
                if o.auto && h > 0 {
                    RuleOut {
                        consumed,
                        next: Some(o.with_q(amt, h - amt)),
                        moved: amt,
                        remaining,
                        discarded: 0,
                    }
                } else {
                    RuleOut {
                        consumed,
                        next: None,
                        moved: 0,
                        remaining,
                        discarded: h,
                    }
                }
            } else if o.auto && h > 0 && d1 < thr {
                RuleOut {
                    consumed,
                    next: Some(o.with_q(d1 + amt, h - amt)),
                    moved: amt,
                    remaining,
                    discarded: 0,
                }
            } else {
                RuleOut {
                    consumed,
                    next: Some(o.with_q(d1, h)),
                    moved: 0,
                    remaining,
                    discarded: 0,
                }
            }
        }
        _ => {
            if d1 == 0 {
                RuleOut {
                    consumed,
                    next: None,
                    moved: 0,
                    remaining,
                    discarded: 0,
                }
            } else {
                RuleOut {
                    consumed,
                    next: Some(o.with_q(d1, 0)),
                    moved: 0,
                    remaining,
                    discarded: 0,
                }
            }
        }
    }
}

/// Upper bound on the number of maker visits one match can need against `orders`
/// when every visit of a displayed order consumes at least one unit (used for the
/// step budget; generators keep it small).
pub fn max_visits(orders: &[OrderSpec]) -> u64 {
    let mut v: u64 = 0;
    for o in orders {
        let rounds = match o.kind {
            Kind::Iceberg => o.hid,
            Kind::Reserve => {
                if o.auto {
                    let amount = if o.p2_some { o.p2 } else { DEFAULT_REPLENISH };
                    if amount == 0 { 1 } else { o.hid / amount + 2 }
                } else {
                    0
                }
            }
            _ => 0,
        };
        v = v.saturating_add(2).saturating_add(rounds);
    }
    v
}

/// Total quantity of `o` that matching can ever execute under the rule: the displayed part plus
/// whatever the rule eventually moves from hidden to displayed.
pub fn matchable(o: &OrderSpec) -> u128 {
    let d = o.vis as u128;
    let h = o.hid as u128;
    match o.kind {
        // an iceberg replenishes by min(hidden, exhausted tranche): nothing if it displays 0
        Kind::Iceberg => {
            if o.vis > 0 {
                d + h
            } else {
                0
            }
        }
        Kind::Reserve => {
            let amount = if o.p2_some { o.p2 } else { DEFAULT_REPLENISH };
            if o.auto && amount > 0 { d + h } else { d }
        }
        _ => d,
    }
}

pub fn specs(listing: &[Order]) -> Vec<OrderSpec> {
    listing.iter().map(OrderSpec::of).collect()
}

pub fn sum_vis(l: &[OrderSpec]) -> u128 {
    l.iter().map(|o| o.vis as u128).sum()
}
pub fn sum_hid(l: &[OrderSpec]) -> u128 {
    l.iter().map(|o| o.hid as u128).sum()
}

/// Identity fields and type parameters (everything but the two quantities) equal?
pub fn same_identity(a: &OrderSpec, b: &OrderSpec) -> bool {
    a.with_q(0, 0) == b.with_q(0, 0)
}

/// Sorted-by-id copies compare equal (multiset equality when ids are unique).
pub fn same_content(a: &[OrderSpec], b: &[OrderSpec]) -> bool {
    if a.len() != b.len() {
        return false;
    }
    let mut x: Vec<&OrderSpec> = a.iter().collect();
    let mut y: Vec<&OrderSpec> = b.iter().collect();
    x.sort_by_key(|o| (o.id, o.ts, o.vis, o.hid));
    y.sort_by_key(|o| (o.id, o.ts, o.vis, o.hid));
    x == y
}
