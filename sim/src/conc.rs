//! Engine T — concurrent programs on one shared level under the controlled scheduler,
//! with monitors for C03 C08 C12 C13 C15 evaluated over the recorded history.

use crate::core::{ClockCfg, Fail, Installed, SeqHooks, guarded};
use crate::model::{max_visits, sum_hid, sum_vis};
use crate::prng::Digest;
use crate::sched::{Ev, EvKind, Observer, Sched, Strategy, ThreadHooks};
use crate::seq::{Probes, Violation, canon_match, hex128, read_aggs, read_listing};
use crate::spec::*;
use pricelevel::verif::{Site, fingerprint, muted};
use pricelevel::{PriceLevel, UuidGenerator};
use serde::{Deserialize, Serialize};
use std::collections::{BTreeMap, BTreeSet};
use std::sync::{Arc, Mutex};
use std::time::Duration;
use uuid::Uuid;

#[derive(Clone, Debug, PartialEq, Serialize, Deserialize)]
pub struct TKnobs {
    pub price: u64,
    pub hash_seed: u64,
    pub shards: usize,
    #[serde(default)]
    pub clock: ClockCfg,
    #[serde(with = "hex128")]
    pub namespace: u128,
    /// the driver keeps the `Arc`s that `add_order` returned for the pre-loaded orders alive
    /// until the run is over (a caller that holds on to what it was given)
    #[serde(default)]
    pub hold: bool,
}

#[derive(Clone, Debug, PartialEq, Serialize, Deserialize)]
pub struct Program {
    pub knobs: TKnobs,
    pub preload: Vec<OrderSpec>,
    /// preloaded ids that are added, cancelled and added again during setup, so that a ticket
    /// of the cancelled instance is still in the queue when the threads start
    #[serde(default)]
    pub churn: Vec<IdS>,
    pub threads: Vec<Vec<Op>>,
    pub strategy: Strategy,
    pub sched_seed: u64,
}

#[derive(Clone, Debug)]
pub enum Resp {
    Added,
    Matched {
        canon: String,
        txs: Vec<(IdS, u64, Uuid, u64)>, // maker, qty, tx id, price
        remaining: u64,
        filled: Vec<IdS>,
    },
    Updated(Result<Option<OrderSpec>, String>),
    Read {
        v: u64,
        h: u64,
        c: usize,
    },
    Failed(Fail),
    Skipped,
}

#[derive(Default, Debug)]
pub struct TOutcome {
    pub violations: Vec<Violation>,
    pub digest: u64,
    pub probes: Probes,
    pub steps: u64,
    pub switches: u64,
    pub clock_ms: u64,
    pub clock_jumps: u64,
    pub schedule: Vec<u8>,
    pub contended: bool,
    pub harness_error: Option<String>,
    pub state_digest: u64,
}

fn bump(p: &mut Probes, k: &'static str) {
    *p.entry(k).or_insert(0) += 1;
}

/// Observer: C12 bounds at every step, and the pre-state of an amended order.
struct Obs {
    level: Arc<PriceLevel>,
    shared: Arc<Mutex<ObsData>>,
}

#[derive(Default)]
pub struct ObsData {
    /// upper bounds maintained from what has been supplied so far:
    /// visible <= everything added (displayed + hidden can all become displayed) + amend increases,
    /// hidden <= hidden quantities added, count <= orders added
    pub vis_bound: u128,
    pub hid_bound: u128,
    pub adds: u64,
    pub c12: Option<(u64, String)>,
    pub observations: u64,
    /// (tid, op) -> (fingerprint, id, new quantity) of the order being amended
    pub amend_target: BTreeMap<(usize, usize), (u64, IdS, u64)>,
    /// what this amend has contributed to `vis_bound` so far
    pub amend_added: BTreeMap<(usize, usize), u128>,
    /// pre-states seen at the successive lookup / removal steps of an amend on its target
    /// (`None` = the map could not be read then)
    pub amend_old: BTreeMap<(usize, usize), Vec<Option<Option<OrderSpec>>>>,
}

impl Observer for Obs {
    fn before_op(
        &mut self,
        step_no: u64,
        tid: usize,
        op: usize,
        site: Site,
        key: u64,
        guard_held: bool,
        guards_anywhere: bool,
    ) {
        let mut d = self.shared.lock().unwrap();
        // an amend supplies max(0, new quantity - displayed quantity of the order it finds):
        // learnt at its map step on the target, which precedes its counter updates
        if !guard_held && matches!(site, Site::MapRemove | Site::MapGet) {
            if let Some((fp, id, q)) = d.amend_target.get(&(tid, op)).cloned() {
                if fp == key {
                    let prev = d.amend_added.get(&(tid, op)).cloned().unwrap_or(0);
                    if guards_anywhere {
                        // another thread is parked inside a map guard: the map cannot be read
                        // now, so the amend is credited with its whole new quantity (sound, loose)
                        let inc = q as u128;
                        if inc > prev {
                            d.vis_bound += inc - prev;
                            d.amend_added.insert((tid, op), inc);
                        }
                        d.amend_old.entry((tid, op)).or_default().push(None);
                    } else {
                        let cur = muted(|| self.level.verif_find(id.to_lib()))
                            .map(|a| OrderSpec::of(&a));
                        if let Some(c) = &cur {
                            if matches!(c.kind, Kind::Standard | Kind::PostOnly | Kind::Iceberg) {
                                let inc = (q as u128).saturating_sub(c.vis as u128);
                                if inc > prev {
                                    d.vis_bound += inc - prev;
                                    d.amend_added.insert((tid, op), inc);
                                }
                            }
                        }
                        d.amend_old.entry((tid, op)).or_default().push(Some(cur));
                    }
                }
            }
        }
        let (v, h, c) = read_aggs(&self.level);
        d.observations += 1;
        if d.c12.is_none()
            && (v as u128 > d.vis_bound || h as u128 > d.hid_bound || c as u64 > d.adds)
        {
            let (sv, sh, a) = (d.vis_bound, d.hid_bound, d.adds);
            d.c12 = Some((
                step_no,
                format!(
                    "before step {step_no} (thread {tid} op {op} {site:?}{}): visible={v} hidden={h} count={c}, but what has been supplied so far allows at most visible {sv}, hidden {sh}, count {a}",
                    if guard_held { ", inside a map guard" } else { "" }
                ),
            ));
        }
    }
}

/// Feed the step trace to a digest; atomics are identified by their address, which is
/// replaced by its index of first appearance (addresses differ between processes).
pub fn digest_trace(dg: &mut Digest, trace: &[Ev]) {
    let mut canon: BTreeMap<u64, u64> = BTreeMap::new();
    for e in trace {
        dg.u64(
            (e.kind as u64) << 56
                | (e.tid as u64) << 48
                | (e.op as u64) << 40
                | (e.site as u64) << 32
                | (e.outcome as u64) << 24,
        );
        let key = if matches!(
            e.site,
            Site::AtomicLoad | Site::AtomicStore | Site::AtomicRmw
        ) {
            let n = canon.len() as u64;
            *canon.entry(e.key).or_insert(n)
        } else {
            e.key
        };
        dg.u64(key);
    }
}

fn fp_of(id: IdS) -> u64 {
    fingerprint(&id.to_lib())
}

fn exec_op(level: &PriceLevel, generator: &UuidGenerator, op: &Op) -> Resp {
    match op {
        Op::Add(o) => {
            level.add_order(o.to_lib());
            Resp::Added
        }
        Op::Match { qty, taker } => {
            let m = level.match_order(*qty, taker.to_lib(), generator);
            Resp::Matched {
                canon: canon_match(&m),
                txs: m
                    .transactions
                    .as_vec()
                    .iter()
                    .map(|t| {
                        (
                            IdS::of(t.maker_order_id),
                            t.quantity,
                            t.transaction_id,
                            t.price,
                        )
                    })
                    .collect(),
                remaining: m.remaining_quantity,
                filled: m.filled_order_ids.iter().map(|i| IdS::of(*i)).collect(),
            }
        }
        Op::Upd(u) => Resp::Updated(
            level
                .update_order(u.to_lib())
                .map(|o| o.map(|a| OrderSpec::of(&a)))
                .map_err(|e| e.to_string()),
        ),
        Op::Read(k) => match k % 3 {
            0 => Resp::Read {
                v: level.visible_quantity(),
                h: level.hidden_quantity(),
                c: level.order_count(),
            },
            1 => {
                let s = level.snapshot();
                Resp::Read {
                    v: s.visible_quantity,
                    h: s.hidden_quantity,
                    c: s.order_count,
                }
            }
            _ => {
                let _ = level.iter_orders();
                let st = level.stats();
                let _ = (st.orders_added(), st.quantity_executed());
                Resp::Read {
                    v: level.visible_quantity(),
                    h: level.hidden_quantity(),
                    c: level.order_count(),
                }
            }
        },
        _ => Resp::Skipped,
    }
}

/// Execute a program.  Pure function of (program, code).
pub fn run_program(p: &Program) -> TOutcome {
    let mut out = TOutcome::default();
    let n = p.threads.len();
    let lp = p.knobs.price;
    // ---- phase 1: setup (sequential, unscheduled)
    let setup_hooks = SeqHooks::new(ClockCfg::default(), p.knobs.hash_seed, p.knobs.shards);
    let mut held = vec![];
    let level = {
        let _i = Installed::new(setup_hooks.clone());
        let level = PriceLevel::new(lp);
        for o in &p.preload {
            let a = level.add_order(o.to_lib());
            if p.knobs.hold {
                held.push(a);
            }
            if p.churn.contains(&o.id) {
                let _ = level.update_order(
                    UpdSpec {
                        kind: UpdKind::Cancel,
                        id: o.id,
                        price: 0,
                        qty: 0,
                        buy: false,
                    }
                    .to_lib(),
                );
                let a = level.add_order(o.to_lib());
                if p.knobs.hold {
                    held.push(a);
                }
            }
        }
        Arc::new(level)
    };
    let generator = Arc::new(UuidGenerator::new(Uuid::from_u128(p.knobs.namespace)));
    let total_ops: usize = p.threads.iter().map(|t| t.len()).sum();
    let pre_specs: Vec<OrderSpec> = p.preload.clone();
    let budget = (64 * (max_visits(&pre_specs).min(1 << 30) + 16) * (total_ops as u64 + 2) + 4000)
        .min(2_000_000);
    let est_steps = 30 * total_ops as u64 + 10;
    let sched = Sched::new(
        n,
        p.strategy.clone(),
        p.sched_seed,
        budget,
        p.knobs.clock.clone(),
        p.knobs.hash_seed,
        p.knobs.shards,
        est_steps,
    );
    let shared = Arc::new(Mutex::new(ObsData::default()));
    {
        let mut d = shared.lock().unwrap();
        d.vis_bound = pre_specs.iter().map(|o| o.vis as u128 + o.hid as u128).sum();
        d.hid_bound = pre_specs.iter().map(|o| o.hid as u128).sum();
        d.adds = pre_specs.len() as u64;
    }
    sched.m.lock().unwrap().observer = Some(Box::new(Obs {
        level: level.clone(),
        shared: shared.clone(),
    }));

    // ---- phase 2: threads under the scheduler
    let mut responses: Vec<Vec<Resp>> = vec![vec![]; n];
    let mut ok = true;
    let mut jobs: Vec<Box<dyn FnOnce() -> Vec<Resp> + Send>> = vec![];
    for (tid, ops) in p.threads.iter().enumerate() {
        let sched = sched.clone();
        let level = level.clone();
        let generator = generator.clone();
        let shared = shared.clone();
        let ops = ops.clone();
        jobs.push(Box::new(move || {
            let hooks = Arc::new(ThreadHooks {
                sched: sched.clone(),
                tid,
            });
            let _i = Installed::new(hooks);
            let mut resps: Vec<Resp> = Vec::with_capacity(ops.len());
            sched.thread_start(tid);
            let mut dead = false;
            for (i, op) in ops.iter().enumerate() {
                if dead {
                    resps.push(Resp::Skipped);
                    continue;
                }
                // invocation: bounds known to the observer first
                {
                    let mut d = shared.lock().unwrap();
                    match op {
                        Op::Add(o) => {
                            d.vis_bound += o.vis as u128 + o.hid as u128;
                            d.hid_bound += o.hid as u128;
                            d.adds += 1;
                        }
                        Op::Upd(u) => {
                            if let Some(q) = u.amends(lp) {
                                d.amend_target.insert((tid, i), (fp_of(u.id), u.id, q));
                            }
                        }
                        _ => {}
                    }
                }
                let r = guarded(|| {
                    sched.op_begin(tid, i);
                    let r = exec_op(&level, &generator, op);
                    sched.op_end(tid, i);
                    r
                });
                match r {
                    Ok(r) => resps.push(r),
                    Err(f) => {
                        if f == Fail::Budget {
                            dead = true;
                        }
                        resps.push(Resp::Failed(f));
                    }
                }
            }
            sched.finish(tid);
            resps
        }));
    }
    let sched2 = sched.clone();
    let results = crate::pool::run_jobs(jobs, move || {
        sched2.release_first(n) && sched2.wait_done(n, Duration::from_secs(30))
    });
    for (tid, r) in results.into_iter().enumerate() {
        match r {
            Some(r) => responses[tid] = r,
            None => ok = false,
        }
    }
    if !ok {
        out.harness_error = Some(
            "watchdog: program threads did not finish (un-instrumented blocking primitive?)".into(),
        );
        return out;
    }
    let (trace, schedule, steps, switches, aborted, lock_waits, deadlock, in_guard) = {
        let mut g = sched.m.lock().unwrap();
        g.observer = None;
        (
            std::mem::take(&mut g.trace),
            std::mem::take(&mut g.schedule),
            g.steps,
            g.switches,
            g.aborted,
            g.lock_waits,
            g.deadlock,
            g.in_guard_preemptions,
        )
    };
    out.probes.insert("waited_for_a_map_guard", lock_waits);
    out.probes.insert("preempted_inside_a_map_guard", in_guard);
    out.steps = steps;
    out.switches = switches;
    out.schedule = schedule;
    out.clock_ms = sched.clock.span.load(std::sync::atomic::Ordering::Relaxed);
    out.clock_jumps = sched
        .clock
        .jumps_fired
        .load(std::sync::atomic::Ordering::Relaxed);

    // ---- digest of the whole event log
    let mut dg = Digest::default();
    digest_trace(&mut dg, &trace);
    for (t, rs) in responses.iter().enumerate() {
        for r in rs {
            dg.u64(t as u64);
            match r {
                Resp::Added => dg.u64(1),
                Resp::Matched { canon, .. } => dg.str(canon),
                Resp::Updated(u) => dg.str(&format!("{u:?}")),
                Resp::Read { v, h, c } => {
                    dg.u64(*v);
                    dg.u64(*h);
                    dg.u64(*c as u64)
                }
                Resp::Failed(f) => dg.str(&format!("{f:?}")),
                Resp::Skipped => dg.u64(9),
            }
        }
    }
    out.digest = dg.finish();

    let mut viol = |prop: &str, sig: &str, at: usize, detail: String, out: &mut TOutcome| {
        let full = format!("{prop}/{sig}");
        if !out.violations.iter().any(|v| v.sig == full) {
            out.violations.push(Violation {
                prop: prop.into(),
                sig: full,
                at,
                detail,
            });
        }
    };

    if deadlock {
        for prop in ["C03", "C08"] {
            viol(
                prop,
                "deadlock",
                0,
                "every live thread waits for a map guard held by another one".into(),
                &mut out,
            );
        }
        return out;
    }
    if aborted {
        viol(
            "C06",
            "concurrent-no-return",
            0,
            format!("the program exceeded its step budget of {budget}"),
            &mut out,
        );
        viol(
            "C08",
            "concurrent-no-return",
            0,
            format!("the program exceeded its step budget of {budget}"),
            &mut out,
        );
        return out;
    }
    for (t, rs) in responses.iter().enumerate() {
        for (i, r) in rs.iter().enumerate() {
            if let Resp::Failed(Fail::Panic(m)) = r {
                for prop in ["C03", "C12"] {
                    viol(
                        prop,
                        "operation-panics",
                        i,
                        format!("thread {t} op {i} ({}) panicked: {m}", p.threads[t][i].brief()),
                        &mut out,
                    );
                }
            }
        }
    }

    // ---- C12: observer + reader results
    let obs = shared.lock().unwrap();
    out.probes.insert("observations", obs.observations);
    if let Some((s, d)) = &obs.c12 {
        viol("C12", "impossible-aggregate", *s as usize, d.clone(), &mut out);
    }
    let (final_vis, final_hid) = (obs.vis_bound, obs.hid_bound);
    let final_adds = obs.adds;
    for (t, rs) in responses.iter().enumerate() {
        for (i, r) in rs.iter().enumerate() {
            if let Resp::Read { v, h, c } = r {
                bump(&mut out.probes, "reader_results");
                if *v as u128 > final_vis || *h as u128 > final_hid || *c as u64 > final_adds {
                    viol(
                        "C12",
                        "reader-saw-impossible-aggregate",
                        i,
                        format!("thread {t} op {i} read visible={v} hidden={h} count={c}; supplied over the whole run allows at most visible {final_vis}, hidden {final_hid}, count {final_adds}"),
                        &mut out,
                    );
                }
            }
        }
    }

    // ---- phase 3: quiescence
    let setup2 = SeqHooks::new(ClockCfg::default(), p.knobs.hash_seed, p.knobs.shards);
    let _i2 = Installed::new(setup2.clone());
    let listing = read_listing(&level);
    let (v, h, c) = read_aggs(&level);
    if v as u128 != sum_vis(&listing) || h as u128 != sum_hid(&listing) || c != listing.len() {
        viol(
            "C03",
            "aggregate-mismatch-at-quiescence",
            0,
            format!(
                "after all threads returned: visible={v} hidden={h} count={c}, listing sums visible={} hidden={} count={}",
                sum_vis(&listing),
                sum_hid(&listing),
                listing.len()
            ),
            &mut out,
        );
    }

    // ---- history analysis
    let an = analyse(p, &trace, &responses, &obs, &listing);
    out.contended = an.contended;
    for (k, v) in &an.probes {
        *out.probes.entry(k).or_insert(0) += v;
    }
    for v in an.violations {
        if !out.violations.iter().any(|x| x.sig == v.sig) {
            out.violations.push(v);
        }
    }
    drop(obs);

    // ---- C15 at quiescence
    let st = muted(|| {
        let s = level.stats();
        (
            s.orders_added() as u128,
            s.orders_removed() as u128,
            s.quantity_executed() as u128,
            s.value_executed() as u128,
        )
    });
    let churned = p.preload.iter().filter(|o| p.churn.contains(&o.id)).count() as u128;
    let mut exp_added = p.preload.len() as u128 + churned;
    let mut exp_removed = churned;
    let mut exp_qty = 0u128;
    for (t, rs) in responses.iter().enumerate() {
        for (i, r) in rs.iter().enumerate() {
            match (r, &p.threads[t][i]) {
                (Resp::Added, _) => exp_added += 1,
                (Resp::Updated(Ok(Some(_))), Op::Upd(u)) if u.removes(lp) => exp_removed += 1,
                (Resp::Matched { txs, .. }, _) => {
                    exp_qty += txs.iter().map(|t| t.1 as u128).sum::<u128>()
                }
                _ => {}
            }
        }
    }
    let all_at_price = p.preload.iter().all(|o| o.price == lp)
        && p.threads.iter().flatten().all(|o| match o {
            Op::Add(o) => o.price == lp,
            _ => true,
        });
    let mut c15 = |name: &str, got: u128, exp: u128, when: &str, out: &mut TOutcome| {
        if got != exp {
            viol(
                "C15",
                name,
                0,
                format!("{when}: statistics {name} = {got}, events say {exp}"),
                out,
            );
        }
    };
    c15("orders_added", st.0, exp_added, "at quiescence", &mut out);
    c15("orders_removed", st.1, exp_removed, "at quiescence", &mut out);
    // the same figure from what actually happened to the orders: every order added either still
    // rests, or was filled by a match (it is named in some filled-order list), or was removed
    let mut filled_union: BTreeSet<IdS> = BTreeSet::new();
    let mut any_failed = false;
    for rs in &responses {
        for r in rs {
            match r {
                Resp::Matched { filled, .. } => filled_union.extend(filled.iter().cloned()),
                Resp::Failed(_) | Resp::Skipped => any_failed = true,
                _ => {}
            }
        }
    }
    if !any_failed {
        let acct = exp_added as i128 - listing.len() as i128 - filled_union.len() as i128;
        if acct != st.1 as i128 {
            viol(
                "C15",
                "orders_removed",
                0,
                format!(
                    "at quiescence: statistics orders_removed = {}, but {} orders were added, {} still rest and {} were filled by matches, so {} were removed",
                    st.1,
                    exp_added,
                    listing.len(),
                    filled_union.len(),
                    acct
                ),
                &mut out,
            );
        }
    }
    c15("quantity_executed", st.2, exp_qty, "at quiescence", &mut out);
    if all_at_price {
        c15("value_executed", st.3, exp_qty * lp as u128, "at quiescence", &mut out);
    }

    // ---- phase 4: drain, phase 5: final read (C08)
    let before_drain = listing.clone();
    setup2.begin_op(
        (64 * (max_visits(&before_drain).min(1 << 30) + before_drain.len() as u64 + 8)).min(300_000),
    );
    let taker = IdS {
        ulid: false,
        v: 0xd4a1,
    };
    let dr = guarded(|| level.match_order(u64::MAX / 2, taker.to_lib(), &generator));
    setup2.end_op();
    match dr {
        Err(f) => {
            viol(
                "C08",
                "drain-fails",
                0,
                format!("draining match after the concurrent phase {}", f.brief()),
                &mut out,
            );
        }
        Ok(m) => {
            let after = read_listing(&level);
            let (v, h, c) = read_aggs(&level);
            if let Some(o) = after.iter().find(|o| o.vis == 0 && crate::model::matchable(o) > 0) {
                viol(
                    "C08",
                    "not-drained",
                    0,
                    format!(
                        "after a draining match {} still rests although its hidden quantity is replenishable",
                        o.brief()
                    ),
                    &mut out,
                );
            }
            if let Some(o) = after.iter().find(|o| o.vis > 0) {
                viol(
                    "C08",
                    "stranded-order",
                    0,
                    format!(
                        "after a draining match {} is still listed with displayed quantity {} (unreachable by matching)",
                        o.brief(),
                        o.vis
                    ),
                    &mut out,
                );
            }
            if v as u128 != sum_vis(&after) || h as u128 != sum_hid(&after) || c != after.len() {
                viol(
                    "C08",
                    "aggregates-after-drain",
                    0,
                    format!(
                        "after the drain: visible={v} hidden={h} count={c}, listing sums visible={} hidden={} count={}",
                        sum_vis(&after),
                        sum_hid(&after),
                        after.len()
                    ),
                    &mut out,
                );
            }
            // the drain executes exactly what was resting and matchable: every maker it names was listed
            let listed: BTreeSet<IdS> = before_drain.iter().map(|o| o.id).collect();
            let mut drained: BTreeMap<IdS, u128> = BTreeMap::new();
            for t in m.transactions.as_vec() {
                let id = IdS::of(t.maker_order_id);
                if !listed.contains(&id) {
                    viol(
                        "C08",
                        "drain-trades-unlisted-order",
                        0,
                        format!("the drain traded against {} which was not listed at quiescence", id.short()),
                        &mut out,
                    );
                }
                *drained.entry(id).or_insert(0) += t.quantity as u128;
            }
            for o in &before_drain {
                let got = drained.get(&o.id).cloned().unwrap_or(0);
                let rest: u128 = after
                    .iter()
                    .filter(|x| x.id == o.id)
                    .map(|x| x.vis as u128 + x.hid as u128)
                    .sum();
                let total = o.vis as u128 + o.hid as u128;
                let may_discard = o.kind == Kind::Reserve && !o.auto;
                let fine = if may_discard {
                    got + rest == total || (rest == 0 && got + o.hid as u128 == total)
                } else {
                    got + rest == total
                };
                if !fine {
                    viol(
                        "C08",
                        "drain-conservation",
                        0,
                        format!(
                            "{} rested with {} units at quiescence; the drain executed {} and {} still rest",
                            o.brief(),
                            total,
                            got,
                            rest
                        ),
                        &mut out,
                    );
                }
            }
            let st2 = muted(|| {
                let s = level.stats();
                (s.quantity_executed() as u128, s.orders_added() as u128)
            });
            let dq: u128 = m.transactions.as_vec().iter().map(|t| t.quantity as u128).sum();
            c15("quantity_executed", st2.0, exp_qty + dq, "after the drain", &mut out);
            c15("orders_added", st2.1, exp_added, "after the drain", &mut out);
            let mut sd = Digest::default();
            for o in &after {
                sd.u64(o.id.v as u64);
                sd.u64(o.vis);
                sd.u64(o.hid);
            }
            for o in &before_drain {
                sd.u64(o.id.v as u64);
                sd.u64(o.vis);
                sd.u64(o.hid);
            }
            out.state_digest = sd.finish();
        }
    }
    out
}

pub struct Analysis {
    pub violations: Vec<Violation>,
    pub probes: Probes,
    pub contended: bool,
}

#[derive(Clone, Copy, Debug, PartialEq, Eq)]
enum OpK {
    Add,
    Match,
    Cancel, // cancel or price move
    Amend,
    Read,
    Other,
}

fn opk(op: &Op, lp: u64) -> OpK {
    match op {
        Op::Add(_) => OpK::Add,
        Op::Match { .. } => OpK::Match,
        Op::Upd(u) => {
            if u.kind == UpdKind::Price && u.price == lp {
                OpK::Other
            } else if u.removes(lp) {
                OpK::Cancel
            } else {
                OpK::Amend
            }
        }
        Op::Read(_) => OpK::Read,
        _ => OpK::Other,
    }
}

/// Post-hoc analysis of the recorded history: conservation (C03) and truthfulness (C13).
pub fn analyse(
    p: &Program,
    trace: &[Ev],
    responses: &[Vec<Resp>],
    obs: &ObsData,
    listing_q: &[OrderSpec],
) -> Analysis {
    let lp = p.knobs.price;
    let mut a = Analysis {
        violations: vec![],
        probes: Probes::new(),
        contended: false,
    };
    let mut push = |prop: &str, sig: &str, at: usize, detail: String, a: &mut Analysis| {
        let full = format!("{prop}/{sig}");
        if !a.violations.iter().any(|v| v.sig == full) {
            a.violations.push(Violation {
                prop: prop.into(),
                sig: full,
                at,
                detail,
            });
        }
    };
    // ids known to the program
    let mut spec_of: BTreeMap<IdS, OrderSpec> = BTreeMap::new();
    let mut fp_to_id: BTreeMap<u64, IdS> = BTreeMap::new();
    let mut adder: BTreeMap<IdS, Option<(usize, usize)>> = BTreeMap::new();
    for o in &p.preload {
        spec_of.insert(o.id, *o);
        fp_to_id.insert(fp_of(o.id), o.id);
        adder.insert(o.id, None);
    }
    for (t, ops) in p.threads.iter().enumerate() {
        for (i, op) in ops.iter().enumerate() {
            match op {
                Op::Add(o) => {
                    spec_of.insert(o.id, *o);
                    fp_to_id.insert(fp_of(o.id), o.id);
                    adder.insert(o.id, Some((t, i)));
                }
                Op::Upd(u) => {
                    fp_to_id.entry(fp_of(u.id)).or_insert(u.id);
                }
                _ => {}
            }
        }
    }
    // invocation / response step numbers
    let mut inv: BTreeMap<(usize, usize), usize> = BTreeMap::new();
    let mut ret: BTreeMap<(usize, usize), usize> = BTreeMap::new();
    for (k, e) in trace.iter().enumerate() {
        match e.kind {
            EvKind::Invoke => {
                inv.insert((e.tid as usize, e.op as usize), k);
            }
            EvKind::Return => {
                ret.insert((e.tid as usize, e.op as usize), k);
            }
            _ => {}
        }
    }
    // per id: map events in global order
    #[derive(Clone, Copy, Debug)]
    struct MapEv {
        k: usize,
        tid: usize,
        op: usize,
        site: Site,
        found: bool,
    }
    let mut evs: BTreeMap<IdS, Vec<MapEv>> = BTreeMap::new();
    for (k, e) in trace.iter().enumerate() {
        if e.kind != EvKind::Step {
            continue;
        }
        if matches!(e.site, Site::MapInsert | Site::MapRemove | Site::MapGet) {
            if let Some(id) = fp_to_id.get(&e.key) {
                evs.entry(*id).or_default().push(MapEv {
                    k,
                    tid: e.tid as usize,
                    op: e.op as usize,
                    site: e.site,
                    found: e.outcome == 1,
                });
            }
        }
    }
    // contention: two threads touched the same id with overlapping operation intervals
    for (_, v) in &evs {
        let mut spans: Vec<(usize, usize, usize)> = vec![]; // (tid, inv, ret)
        for e in v {
            let i = inv.get(&(e.tid, e.op)).cloned().unwrap_or(0);
            let r = ret.get(&(e.tid, e.op)).cloned().unwrap_or(usize::MAX);
            if !spans.iter().any(|s| s.0 == e.tid && s.1 == i) {
                spans.push((e.tid, i, r));
            }
        }
        for x in 0..spans.len() {
            for y in x + 1..spans.len() {
                if spans[x].0 != spans[y].0 && spans[x].1 < spans[y].2 && spans[y].1 < spans[x].2 {
                    a.contended = true;
                }
            }
        }
    }

    let listed: BTreeMap<IdS, OrderSpec> = listing_q.iter().map(|o| (o.id, *o)).collect();

    // ---- C03 conservation per id
    let mut txids: BTreeSet<Uuid> = BTreeSet::new();
    let mut executed: BTreeMap<IdS, u128> = BTreeMap::new();
    for (t, rs) in responses.iter().enumerate() {
        for (i, r) in rs.iter().enumerate() {
            if let Resp::Matched { txs, .. } = r {
                for (m, q, id, price) in txs {
                    *executed.entry(*m).or_insert(0) += *q as u128;
                    if !txids.insert(*id) {
                        push(
                            "C03",
                            "transaction-id-twice",
                            i,
                            format!("transaction id {id} appears twice (thread {t} op {i})"),
                            &mut a,
                        );
                    }
                    if *price != lp {
                        push("C03", "tx-price", i, format!("transaction at price {price}"), &mut a);
                    }
                    if !spec_of.contains_key(m) {
                        push(
                            "C03",
                            "unknown-maker",
                            i,
                            format!("transaction against {} which nobody added", m.short()),
                            &mut a,
                        );
                    }
                }
            }
        }
    }
    for (id, spec) in &spec_of {
        // was the add performed?
        let added = match adder[id] {
            None => true,
            Some((t, i)) => matches!(responses[t].get(i), Some(Resp::Added)),
        };
        if !added {
            continue;
        }
        let mut inq: i128 = spec.vis as i128 + spec.hid as i128;
        let mut outq: i128 = executed.get(id).cloned().unwrap_or(0) as i128;
        let mut handed = 0usize;
        let mut amended = false;
        let mut unattributable = false;
        for (t, rs) in responses.iter().enumerate() {
            for (i, r) in rs.iter().enumerate() {
                let Op::Upd(u) = &p.threads[t][i] else { continue };
                if u.id != *id {
                    continue;
                }
                if let Resp::Updated(Ok(Some(o))) = r {
                    match opk(&p.threads[t][i], lp) {
                        OpK::Cancel => {
                            handed += 1;
                            outq += o.vis as i128 + o.hid as i128;
                        }
                        OpK::Amend => {
                            amended = true;
                            // pre-state: the last observation at a *found* map step of this op on this id
                            let mut old: Option<OrderSpec> = None;
                            let peeks = obs.amend_old.get(&(t, i));
                            let mut ordinal = 0usize;
                            for e in evs.get(id).map(|v| v.as_slice()).unwrap_or(&[]) {
                                if e.tid == t && e.op == i && e.site != Site::MapInsert {
                                    if e.found {
                                        old = match peeks.and_then(|p| p.get(ordinal)) {
                                            Some(Some(Some(x))) => Some(*x),
                                            _ => None,
                                        };
                                    }
                                    ordinal += 1;
                                }
                            }
                            match old {
                                Some(x) => {
                                    inq += o.vis as i128 + o.hid as i128;
                                    outq += x.vis as i128 + x.hid as i128;
                                }
                                None => {
                                    // cannot attribute: skip the equation for this id
                                    unattributable = true;
                                }
                            }
                        }
                        _ => {}
                    }
                }
            }
        }
        if handed > 1 {
            push(
                "C03",
                "handed-to-two-cancellers",
                0,
                format!("{} was handed back by {handed} cancel / move operations", id.short()),
                &mut a,
            );
        }
        if unattributable {
            continue;
        }
        let rest = listed
            .get(id)
            .map(|o| o.vis as i128 + o.hid as i128)
            .unwrap_or(0);
        outq += rest;
        let may_discard = spec.kind == Kind::Reserve && !spec.auto && rest == 0 && handed == 0;
        let okq = inq == outq || (may_discard && inq == outq + spec.hid as i128);
        if !okq {
            push(
                "C03",
                "order-not-conserved",
                0,
                format!(
                    "{}: supplied {} (incl. amendments) but executed {} + handed back/replaced + resting {} = {}{}",
                    spec.brief(),
                    inq,
                    executed.get(id).cloned().unwrap_or(0),
                    rest,
                    outq,
                    if amended { " (amended)" } else { "" }
                ),
                &mut a,
            );
        }
    }

    // ---- C13 truthfulness
    for (id, v) in &evs {
        // final removal: last found MapRemove not followed by a MapInsert of the same (tid, op)
        let mut final_removal: Option<usize> = None;
        for (x, e) in v.iter().enumerate() {
            if e.site == Site::MapRemove && e.found {
                let reinserted = v[x + 1..]
                    .iter()
                    .any(|f| f.site == Site::MapInsert && f.tid == e.tid && f.op == e.op);
                if !reinserted {
                    final_removal = Some(e.k);
                }
            }
        }
        let first_insert = match adder.get(id) {
            Some(None) => Some(0usize),
            Some(Some(_)) => v.iter().find(|e| e.site == Site::MapInsert).map(|e| e.k),
            None => None,
        };
        let add_ret = match adder.get(id) {
            Some(None) => Some(0usize),
            Some(Some((t, i))) => ret.get(&(*t, *i)).cloned(),
            None => None,
        };
        for (t, rs) in responses.iter().enumerate() {
            for (i, r) in rs.iter().enumerate() {
                let Op::Upd(u) = &p.threads[t][i] else { continue };
                if u.id != *id {
                    continue;
                }
                let kind = opk(&p.threads[t][i], lp);
                if !matches!(kind, OpK::Cancel | OpK::Amend) {
                    continue;
                }
                match r {
                    Resp::Updated(Ok(None)) => {
                        let (Some(fi), Some(ar)) = (first_insert, add_ret) else { continue };
                        let Some(iv) = inv.get(&(t, i)).cloned() else { continue };
                        if ar > iv && adder[id].is_some() {
                            continue; // the add had not responded when the call began
                        }
                        // failing lookup step of this op
                        let fail = v
                            .iter()
                            .filter(|e| e.tid == t && e.op == i && !e.found && e.site != Site::MapInsert)
                            .last();
                        let Some(fl) = fail else { continue };
                        let inside = fl.k >= fi && final_removal.map(|fr| fl.k < fr).unwrap_or(true);
                        if !inside {
                            *a.probes.entry("truthful_not_found").or_insert(0) += 1;
                            continue;
                        }
                        // who holds it?
                        let holder = v
                            .iter()
                            .filter(|e| e.k < fl.k && e.site == Site::MapRemove && e.found)
                            .last();
                        let what = if kind == OpK::Cancel { "cancel/move" } else { "amend" };
                        match holder {
                            Some(hd) => {
                                let hk = opk(&p.threads[hd.tid][hd.op], lp);
                                let reinserts = v.iter().any(|f| {
                                    f.k > hd.k && f.site == Site::MapInsert && f.tid == hd.tid && f.op == hd.op
                                });
                                // the listed finding is about a matcher *working on* the order:
                                // between taking it out and putting it back it performs atomic
                                // updates (counters, statistics, id generator)
                                let back = v
                                    .iter()
                                    .find(|f| {
                                        f.k > hd.k
                                            && f.site == Site::MapInsert
                                            && f.tid == hd.tid
                                            && f.op == hd.op
                                    })
                                    .map(|f| f.k)
                                    .unwrap_or(usize::MAX);
                                let worked = trace.iter().enumerate().any(|(k, e)| {
                                    k > hd.k
                                        && k < back
                                        && e.kind == EvKind::Step
                                        && e.tid as usize == hd.tid
                                        && e.op as usize == hd.op
                                        && matches!(
                                            e.site,
                                            Site::AtomicRmw | Site::AtomicStore | Site::AtomicLoad
                                        )
                                });
                                // ... or it has passed the order over (it displays nothing and
                                // cannot replenish) and keeps it until the call returns
                                let inert = spec_of
                                    .get(id)
                                    .map(|o| o.vis == 0 && crate::model::matchable(o) == 0)
                                    .unwrap_or(false);
                                let sig = match (hk, reinserts, worked || inert) {
                                    (OpK::Match, true, true) => "not-found-inflight-match",
                                    (OpK::Amend, true, _) => "not-found-inflight-amend",
                                    _ => "not-found-while-in-book",
                                };
                                *a.probes.entry("untruthful_not_found").or_insert(0) += 1;
                                push(
                                    "C13",
                                    sig,
                                    i,
                                    format!(
                                        "thread {t} op {i}: {what} of {} answered not-found at step {} while thread {} op {} ({}) held the order between taking it out (step {}) and putting it back",
                                        id.short(),
                                        fl.k,
                                        hd.tid,
                                        hd.op,
                                        p.threads[hd.tid][hd.op].brief(),
                                        hd.k
                                    ),
                                    &mut a,
                                );
                            }
                            None => {
                                push(
                                    "C13",
                                    "not-found-while-resting",
                                    i,
                                    format!(
                                        "thread {t} op {i}: {what} of {} answered not-found at step {} although the order was in the map",
                                        id.short(),
                                        fl.k
                                    ),
                                    &mut a,
                                );
                            }
                        }
                    }
                    Resp::Updated(Ok(Some(_))) if kind == OpK::Cancel => {
                        *a.probes.entry("successful_cancel").or_insert(0) += 1;
                        // really taken out?
                        let took = v
                            .iter()
                            .filter(|e| e.tid == t && e.op == i && e.site == Site::MapRemove && e.found)
                            .last();
                        match took {
                            None => push(
                                "C13",
                                "success-without-removal",
                                i,
                                format!(
                                    "thread {t} op {i}: cancel/move of {} reported success but never took the order out of the book",
                                    id.short()
                                ),
                                &mut a,
                            ),
                            Some(tk) => {
                                if let Some(later) = v.iter().find(|e| {
                                    e.k > tk.k
                                        && (e.site == Site::MapInsert || e.found)
                                        && !(e.tid == t && e.op == i)
                                }) {
                                    push(
                                        "C13",
                                        "cancelled-order-reappears",
                                        i,
                                        format!(
                                            "thread {t} op {i} cancelled {} at step {}, but thread {} op {} found / re-inserted it at step {}",
                                            id.short(),
                                            tk.k,
                                            later.tid,
                                            later.op,
                                            later.k
                                        ),
                                        &mut a,
                                    );
                                }
                            }
                        }
                        // "it does not trade": a matcher that reports a transaction against this
                        // order must itself have taken it out of the book (ownership passes with
                        // the map removal); one that never did traded an order it did not hold
                        for (mt, mrs) in responses.iter().enumerate() {
                            for (mi, mr) in mrs.iter().enumerate() {
                                if let Resp::Matched { txs, .. } = mr {
                                    if txs.iter().any(|x| x.0 == *id)
                                        && !v.iter().any(|e| {
                                            e.tid == mt
                                                && e.op == mi
                                                && e.site == Site::MapRemove
                                                && e.found
                                        })
                                    {
                                        push(
                                            "C13",
                                            "cancelled-order-traded",
                                            i,
                                            format!(
                                                "thread {t} op {i} cancelled {} successfully, yet thread {mt} op {mi} reports a transaction against it without ever having taken it out of the book",
                                                id.short()
                                            ),
                                            &mut a,
                                        );
                                    }
                                }
                            }
                        }
                        if listed.contains_key(id) {
                            push(
                                "C13",
                                "cancelled-order-still-listed",
                                i,
                                format!("{} was cancelled successfully but is listed at quiescence", id.short()),
                                &mut a,
                            );
                        }
                    }
                    _ => {}
                }
            }
        }
    }
    a
}
