//! plsim — deterministic simulation with fault injection for `pricelevel`.

mod checks_s;
mod checks_t;
mod checks_w;
mod checks_x;
mod conc;
mod sched;
mod core;
mod driver;
mod genh;
mod model;
mod pool;
mod prng;
mod seq;
mod spec;
mod wire;

use driver::{Check, DEFAULT_SEED, Tier};
use std::path::PathBuf;

fn check_for(prop: &str) -> Option<Box<dyn Check>> {
    match prop {
        "C08" => {
            return Some(Box::new(checks_x::C08 {
                level: checks_t::make("C08")?,
            }));
        }
        "C11" => return Some(Box::new(checks_x::C11)),
        "C14" => return Some(Box::new(checks_x::C14)),
        "C15" => {
            return Some(Box::new(checks_x::C15 {
                s: checks_s::make("C15S")?,
                t: checks_t::make("C15T")?,
            }));
        }
        "C19" => return Some(Box::new(checks_x::C19)),
        _ => {}
    }
    if let Some(c) = checks_s::make(prop) {
        return Some(Box::new(c));
    }
    if let Some(c) = checks_t::make(prop) {
        return Some(Box::new(c));
    }
    if let Some(c) = checks_w::make(prop) {
        return Some(c);
    }
    None
}

fn usage() -> ! {
    eprintln!(
        "usage: plsim check <C01..C19> [--tier quick|thorough] [--seed N]\n       plsim replay <file> [--quiet]\n       plsim selftest determinism"
    );
    std::process::exit(2)
}

fn main() {
    core::install_panic_hook();
    core::init_trace();
    let args: Vec<String> = std::env::args().skip(1).collect();
    if args.is_empty() {
        usage();
    }
    let code = match args[0].as_str() {
        "check" => {
            let Some(prop) = args.get(1) else { usage() };
            let mut tier = match std::env::var("VERIF_TIER").as_deref() {
                Ok("thorough") => Tier::Thorough,
                _ => Tier::Quick,
            };
            let mut seed = std::env::var("VERIF_SEED")
                .ok()
                .and_then(|s| s.parse::<u64>().ok())
                .unwrap_or(DEFAULT_SEED);
            let mut i = 2;
            while i < args.len() {
                match args[i].as_str() {
                    "--tier" => {
                        tier = match args.get(i + 1).map(|s| s.as_str()) {
                            Some("quick") => Tier::Quick,
                            Some("thorough") => Tier::Thorough,
                            _ => usage(),
                        };
                        i += 2;
                    }
                    "--seed" => {
                        seed = args
                            .get(i + 1)
                            .and_then(|s| s.parse().ok())
                            .unwrap_or_else(|| usage());
                        i += 2;
                    }
                    _ => usage(),
                }
            }
            if tier == Tier::Thorough {
                driver::DEEP.store(true, std::sync::atomic::Ordering::Relaxed);
            }
            match check_for(prop) {
                Some(c) => driver::run_check(c.as_ref(), tier, seed),
                None => {
                    eprintln!("harness error: no check for {prop}");
                    2
                }
            }
        }
        "replay" => {
            let Some(f) = args.get(1) else { usage() };
            let quiet = args.iter().any(|a| a == "--quiet");
            let path = PathBuf::from(f);
            let body: serde_json::Value = match std::fs::read_to_string(&path)
                .map_err(|e| e.to_string())
                .and_then(|s| serde_json::from_str(&s).map_err(|e| e.to_string()))
            {
                Ok(v) => v,
                Err(e) => {
                    eprintln!("harness error: cannot read replay file: {e}");
                    std::process::exit(2);
                }
            };
            let prop = body["property"].as_str().unwrap_or("").to_string();
            match check_for(&prop) {
                Some(c) => driver::replay(c.as_ref(), &path, &body, quiet),
                None => {
                    eprintln!("harness error: no check for property {prop:?}");
                    2
                }
            }
        }
        "fingerprints" => {
            let (Some(prop), Some(seed), Some(n)) = (args.get(1), args.get(2), args.get(3)) else {
                usage()
            };
            let Some(c) = check_for(prop) else { usage() };
            let v = driver::fingerprints(
                c.as_ref(),
                seed.parse().unwrap_or(DEFAULT_SEED),
                n.parse().unwrap_or(100),
                2,
            );
            let s: Vec<String> = v.iter().map(|x| x.to_string()).collect();
            println!("{}", s.join(" "));
            0
        }
        "selftest" => {
            let n = args
                .iter()
                .position(|a| a == "--runs")
                .and_then(|i| args.get(i + 1))
                .and_then(|s| s.parse().ok())
                .unwrap_or(2000u64);
            let seed = std::env::var("VERIF_SEED")
                .ok()
                .and_then(|s| s.parse::<u64>().ok())
                .unwrap_or(DEFAULT_SEED);
            let only: Vec<&String> = args.iter().skip(2).filter(|a| a.starts_with('C')).collect();
            let mut checks: Vec<Box<dyn Check>> = vec![];
            for i in 1..=19 {
                let p = format!("C{i:02}");
                if only.is_empty() || only.iter().any(|o| **o == p) {
                    if let Some(c) = check_for(&p) {
                        checks.push(c);
                    }
                }
            }
            driver::selftest_determinism(&checks, seed, n)
        }
        _ => usage(),
    };
    std::process::exit(code);
}
