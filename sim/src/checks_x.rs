//! C11 (restored level trades like the original), C19 (exported queue, sequential),
//! the bare-queue half of C08 (concurrent), C14 (id generator) and the S+T combination for C15.

use crate::checks_s::{SCheck, minimise_history};
use crate::checks_t::{TCheck, gen_clock, gen_strategy};
use crate::conc::TKnobs;
use crate::core::{ClockCfg, Fail, Installed, SeqHooks, guarded};
use crate::driver::{Check, MinStats, RunOut, Tier};
use crate::genh::{Profile, gen_history};
use crate::prng::{Digest, Rng};
use crate::sched::{Sched, Strategy, ThreadHooks};
use crate::seq::{
    Exec, History, Violation, canon_match, hex128, read_aggs, read_listing, rebuild, state_string,
};
use crate::spec::*;
use pricelevel::verif::muted;
use pricelevel::{OrderQueue, PriceLevel, UuidGenerator};
use serde::{Deserialize, Serialize};
use serde_json::{Value, json};
use std::collections::{BTreeMap, BTreeSet};
use std::str::FromStr;
use std::sync::Arc;
use std::time::Duration;
use uuid::Uuid;

fn no_min(case: &Value) -> (Value, MinStats) {
    (
        case.clone(),
        MinStats {
            attempts: 0,
            from_size: 1,
            to_size: 1,
        },
    )
}

// ---------------------------------------------------------------------------
// C11

pub struct C11;

#[derive(Clone, Debug, PartialEq, Serialize, Deserialize)]
pub struct ForkCase {
    pub history: History,
    pub fork_at: usize,
    pub path: u8,
}

fn exec_plain(level: &PriceLevel, generator: &UuidGenerator, hooks: &SeqHooks, op: &Op) -> String {
    hooks.begin_op(400_000);
    let r = guarded(|| match op {
        Op::Add(o) => {
            let present = muted(|| level.iter_orders().iter().any(|a| IdS::of(a.id()) == o.id));
            if present {
                "skip".to_string()
            } else {
                level.add_order(o.to_lib());
                "A".to_string()
            }
        }
        Op::Match { qty, taker } => canon_match(&level.match_order(*qty, taker.to_lib(), generator)),
        Op::Upd(u) => match level.update_order(u.to_lib()) {
            Ok(Some(o)) => format!("U Some({})", OrderSpec::of(&o).brief()),
            Ok(None) => "U None".into(),
            Err(_) => "U Err".into(),
        },
        _ => "-".to_string(),
    });
    hooks.end_op();
    match r {
        Ok(s) => s,
        Err(f) => format!("FAIL {}", f.brief()),
    }
}

fn c11_profile() -> Profile {
    Profile {
        zero: true,
        zero_pct: 25,
        restores: false,
        reads: false,
        probes: false,
        ts_stress: true,
        priority_mix: true,
        corner: false,
        max_ops: 30,
        ..Profile::default()
    }
}

impl C11 {
    fn make_case(&self, seed: u64) -> ForkCase {
        let h = gen_history(seed, &c11_profile());
        let mut r = Rng::stream(seed, 7);
        let n = h.ops.len();
        // fork somewhere in the middle so that both halves have work
        let fork_at = if n <= 2 { n / 2 } else { 1 + r.below(n as u64 - 1) as usize };
        ForkCase {
            history: h,
            fork_at,
            path: r.below(4) as u8,
        }
    }

    fn run(&self, c: &ForkCase) -> RunOut {
        let mut out = RunOut::default();
        let h = &c.history;
        let mut e = Exec::start(h);
        for (i, op) in h.ops.iter().enumerate().take(c.fork_at) {
            if !e.apply(i, op) {
                return out; // the prefix itself failed: other checks report that
            }
        }
        let hooks = e.hooks().clone();
        let listing = e.listing().to_vec();
        let spec_order = e.spec_order();
        let issued = e.tx_issued();
        // ---- fork: restored (through the chosen path) and rebuilt-from-listing
        hooks.begin_op(400_000);
        let restored = guarded(|| rebuild(e.level(), c.path % 4, 0));
        hooks.end_op();
        let restored = match restored {
            Ok(Ok(l)) => l,
            other => {
                out.violations.push(Violation {
                    prop: "C11".into(),
                    sig: "C11/restore-fails".into(),
                    at: c.fork_at,
                    detail: format!(
                        "restoring a quiescent level through path {} failed: {:?}",
                        c.path % 4,
                        other.map(|r| r.map(|_| ()))
                    ),
                });
                return out;
            }
        };
        let rebuilt = PriceLevel::new(h.knobs.price);
        for o in &listing {
            rebuilt.add_order(o.to_lib());
        }
        let mk_gen = || {
            let g = UuidGenerator::new(Uuid::from_u128(h.knobs.namespace));
            muted(|| {
                for _ in 0..issued {
                    let _ = g.next();
                }
            });
            g
        };
        let (g_res, g_reb) = (mk_gen(), mk_gen());
        let listing_order: Vec<IdS> = listing.iter().map(|o| o.id).collect();
        // The listed finding: the snapshot lists orders by timestamp (ties in hash order), so it
        // cannot carry a queue order that is not strictly increasing in timestamp. It applies
        // only when the listing IS timestamp-sorted and the queue order could not have been
        // expressed that way; a listing that deviates from a queue order which is strictly
        // increasing in timestamp has another cause.
        let ts_of: BTreeMap<IdS, u64> = listing.iter().map(|o| (o.id, o.ts)).collect();
        let listing_sorted = listing.windows(2).all(|w| w[0].ts <= w[1].ts);
        let queue_strictly_increasing = match &spec_order {
            Some(s) => s.windows(2).all(|w| ts_of[&w[0]] < ts_of[&w[1]]),
            None => true,
        };
        let order_differs = match &spec_order {
            Some(s) => *s != listing_order && listing_sorted && !queue_strictly_increasing,
            None => false,
        };
        if order_differs {
            *out.probes.entry("listing_order_differs_from_queue_order").or_insert(0) += 1;
        }
        if listing.windows(2).any(|w| w[0].ts == w[1].ts) {
            *out.probes.entry("restore_with_timestamp_ties").or_insert(0) += 1;
        }
        let mut dg = Digest::default();
        let mut t1_fail: Option<(usize, String)> = None;
        let mut t2_fail: Option<(usize, String)> = None;
        for (i, op) in h.ops.iter().enumerate().skip(c.fork_at) {
            if !op.is_mutating() || matches!(op, Op::Restore { .. }) {
                continue;
            }
            let a = exec_plain(e.level(), e.generator(), &hooks, op);
            let b = exec_plain(&restored, &g_res, &hooks, op);
            let r = exec_plain(&rebuilt, &g_reb, &hooks, op);
            dg.str(&a);
            dg.str(&b);
            let (sa, sb, sr) = (
                state_string(e.level()),
                state_string(&restored),
                state_string(&rebuilt),
            );
            if t1_fail.is_none() && (b != r || sb != sr) {
                t1_fail = Some((
                    i,
                    format!(
                        "op {i} ({}): restored level answered {b} [{sb}] but a level built by adding the snapshot's orders in listed order answered {r} [{sr}]",
                        op.brief()
                    ),
                ));
            }
            if t2_fail.is_none() && (a != b || sa != sb) {
                t2_fail = Some((
                    i,
                    format!(
                        "op {i} ({}): original answered {a} [{sa}] but the restored level answered {b} [{sb}]",
                        op.brief()
                    ),
                ));
            }
            if a.starts_with("FAIL") || b.starts_with("FAIL") {
                break;
            }
        }
        if let Some((i, d)) = t1_fail {
            out.violations.push(Violation {
                prop: "C11".into(),
                sig: "C11/restore-differs-from-listing-rebuild".into(),
                at: i,
                detail: d,
            });
        } else if let Some((i, d)) = t2_fail {
            let sig = if order_differs {
                "C11/listing-order"
            } else {
                "C11/restored-diverges"
            };
            out.violations.push(Violation {
                prop: "C11".into(),
                sig: sig.into(),
                at: i,
                detail: format!(
                    "{d}; snapshot listing order {:?}, queue order {:?}",
                    listing_order.iter().map(|x| x.short()).collect::<Vec<_>>(),
                    spec_order
                        .as_ref()
                        .map(|s| s.iter().map(|x| x.short()).collect::<Vec<_>>())
                ),
            });
        }
        out.digest = dg.finish();
        out.nontrivial = listing.len() >= 2 && c.fork_at < h.ops.len();
        out.faults.insert("crash_restart", 1);
        drop(restored);
        drop(rebuilt);
        let o = e.finish();
        out.steps = o.steps;
        out.clock_ms = o.clock_ms;
        if o.clock_jumps > 0 {
            out.faults.insert("clock_jump", o.clock_jumps);
        }
        out
    }
}

impl Check for C11 {
    fn prop(&self) -> &'static str {
        "C11"
    }
    fn engine(&self) -> &'static str {
        "S"
    }
    fn runs(&self, tier: Tier) -> u64 {
        match tier {
            Tier::Quick => 1_000_000,
            Tier::Thorough => 20_000_000,
        }
    }
    fn run_seed(&self, seed: u64) -> RunOut {
        self.run(&self.make_case(seed))
    }
    fn case_of_seed(&self, seed: u64) -> Value {
        json!({"fork": self.make_case(seed)})
    }
    fn run_case(&self, case: &Value) -> Result<RunOut, String> {
        let c: ForkCase = serde_json::from_value(case["fork"].clone()).map_err(|e| e.to_string())?;
        Ok(self.run(&c))
    }
    fn minimise(&self, case: &Value, sig: &str) -> (Value, MinStats) {
        let Ok(c) = serde_json::from_value::<ForkCase>(case["fork"].clone()) else {
            return no_min(case);
        };
        // minimise prefix and continuation separately, keeping the fork point between them
        let from = c.history.ops.len();
        let mut best = c.clone();
        let mut attempts = 0u64;
        // continuation
        let pre: Vec<Op> = best.history.ops[..best.fork_at].to_vec();
        let cont = History {
            knobs: best.history.knobs.clone(),
            ops: best.history.ops[best.fork_at..].to_vec(),
        };
        let fails_cont = |x: &History| {
            let mut ops = pre.clone();
            ops.extend(x.ops.iter().cloned());
            let fc = ForkCase {
                history: History {
                    knobs: x.knobs.clone(),
                    ops,
                },
                fork_at: pre.len(),
                path: best.path,
            };
            self.run(&fc).violations.iter().any(|v| v.sig == sig)
        };
        if !cont.ops.is_empty() && fails_cont(&cont) {
            let (m, a) = minimise_history(&cont, &fails_cont);
            attempts += a;
            let mut ops = pre.clone();
            ops.extend(m.ops.iter().cloned());
            best.history = History {
                knobs: m.knobs,
                ops,
            };
        }
        // prefix
        let cont_ops: Vec<Op> = best.history.ops[best.fork_at..].to_vec();
        let prefix = History {
            knobs: best.history.knobs.clone(),
            ops: best.history.ops[..best.fork_at].to_vec(),
        };
        let path = best.path;
        let fails_pre = |x: &History| {
            let mut ops = x.ops.clone();
            let fork_at = ops.len();
            ops.extend(cont_ops.iter().cloned());
            let fc = ForkCase {
                history: History {
                    knobs: x.knobs.clone(),
                    ops,
                },
                fork_at,
                path,
            };
            self.run(&fc).violations.iter().any(|v| v.sig == sig)
        };
        if !prefix.ops.is_empty() && fails_pre(&prefix) {
            let (m, a) = minimise_history(&prefix, &fails_pre);
            attempts += a;
            let fork_at = m.ops.len();
            let mut ops = m.ops.clone();
            ops.extend(cont_ops.iter().cloned());
            best = ForkCase {
                history: History {
                    knobs: m.knobs,
                    ops,
                },
                fork_at,
                path,
            };
        }
        let to = best.history.ops.len();
        (
            json!({"fork": best}),
            MinStats {
                attempts,
                from_size: from,
                to_size: to,
            },
        )
    }
    fn rule(&self) -> String {
        "engine S: a seeded history (timestamp ties, non-monotone timestamps, re-queued and replenished orders favoured) runs on a level; at a random quiescent point the level is snapshotted and restored (from_snapshot / From<&Snapshot> / package / package JSON); the rest of the history is applied in lock-step to the original, the restored level and a level built by adding the snapshot's listed orders to a fresh level; tier 1 (hard): restored == rebuilt-from-listing for every response and state; tier 2 (spec): restored == original; a tier-2 difference while tier 1 holds and the snapshot's listing order differs from the queue order (priority stamps) is the listed finding C11/listing-order, anything else is a violation; non-trivial = at least 2 resting orders at the fork and a non-empty continuation".into()
    }
    fn assumptions(&self) -> Vec<String> {
        vec![
            "queue order of the original is taken from the priority-stamp monitor of C04 (valid because C04 holds on the same tree)".into(),
            "positive quantities, unique resting ids".into(),
        ]
    }
}

// ---------------------------------------------------------------------------
// C19: bare OrderQueue, sequential

#[derive(Clone, Debug, PartialEq, Serialize, Deserialize)]
pub enum QOp {
    Push(OrderSpec),
    Pop,
    Find(IdS),
    Remove(IdS),
    Len,
    ToVec,
    /// rebuild through: 0 from_vec, 1 From<Vec>, 2 text, 3 JSON
    Rebuild(u8),
}

#[derive(Clone, Debug, PartialEq, Serialize, Deserialize)]
pub struct QCase {
    pub hash_seed: u64,
    pub shards: usize,
    pub ops: Vec<QOp>,
}

pub struct C19;

fn q_listing(q: &OrderQueue) -> Vec<OrderSpec> {
    muted(|| q.to_vec().iter().map(|a| OrderSpec::of(a)).collect())
}

impl C19 {
    fn make_case(&self, seed: u64) -> QCase {
        let mut k = Rng::stream(seed, 1);
        let mut w = Rng::stream(seed, 2);
        let mut n = 1 + k.below(30) as usize;
        let mut ops = vec![];
        let mut next_id = 0u128;
        let mut known: Vec<IdS> = vec![];
        let ts_mode = k.below(3);
        // ids in pairs with the same 128 bits (one UUID, one ULID; the nil id included)
        let twins = k.chance(1, 4);
        // a few long programs: the ticket lanes grow past a queue segment (31 entries) and the
        // counters past 255
        let long = k.chance(1, 32);
        if long {
            n = 60 + k.below(400) as usize;
        }
        // ... and, in half of them, a row of dead tickets: pushes each followed by the removal of
        // the same id, then one live push
        let stale_at = k.below(20) as usize;
        let stale_r = if long && k.chance(1, 2) {
            *k.pick(&[33usize, 40, 64, 70, 130, 260, 520, 1030])
        } else {
            0
        };
        for i in 0..n {
            if stale_r > 0 && i == stale_at {
                for _ in 0..=stale_r {
                    next_id += 1;
                    let id = IdS {
                        ulid: false,
                        v: 0x57a1_0000 + next_id,
                    };
                    let mut o = crate::wire::any_order(&mut w);
                    o.id = id;
                    o.ts = i as u64;
                    ops.push(QOp::Push(o));
                    ops.push(QOp::Remove(id));
                }
                // the last one stays
                ops.pop();
            }
            let r = w.below(100);
            let op = if r < 40 || known.is_empty() {
                let id = if !known.is_empty() && w.chance(1, 4) {
                    *w.pick(&known) // re-push (valid only if currently absent; runner skips otherwise)
                } else {
                    next_id += 1;
                    if twins {
                        IdS {
                            ulid: next_id % 2 == 0,
                            v: (next_id - 1) / 2,
                        }
                    } else {
                        IdS {
                            ulid: w.chance(1, 2),
                            v: next_id,
                        }
                    }
                };
                if !known.contains(&id) {
                    known.push(id);
                }
                let mut o = crate::wire::any_order(&mut w);
                o.id = id;
                o.ts = match ts_mode {
                    0 => i as u64,
                    1 => 5,
                    _ => w.below(4),
                };
                QOp::Push(o)
            } else if r < 60 {
                QOp::Pop
            } else if r < 72 {
                QOp::Remove(*w.pick(&known))
            } else if r < 82 {
                QOp::Find(*w.pick(&known))
            } else if r < 88 {
                QOp::Len
            } else if r < 94 {
                QOp::ToVec
            } else {
                QOp::Rebuild(w.below(4) as u8)
            };
            ops.push(op);
        }
        // drain
        for _ in 0..4 {
            ops.push(QOp::Pop);
        }
        QCase {
            hash_seed: k.next(),
            shards: *k.pick(&[2usize, 4, 16, 64]),
            ops,
        }
    }

    fn run(&self, c: &QCase) -> RunOut {
        let hooks = SeqHooks::new(ClockCfg::default(), c.hash_seed, c.shards);
        let _i = Installed::new(hooks.clone());
        let mut out = RunOut::default();
        let mut dg = Digest::default();
        let mut q = OrderQueue::new();
        let mut model: Vec<OrderSpec> = vec![];
        let mut probes: BTreeMap<&'static str, u64> = BTreeMap::new();
        let mut removed_once: BTreeSet<IdS> = BTreeSet::new();
        let mut viol = |out: &mut RunOut, sig: &str, at: usize, d: String| {
            let full = format!("C19/{sig}");
            if !out.violations.iter().any(|v| v.sig == full) {
                out.violations.push(Violation {
                    prop: "C19".into(),
                    sig: full,
                    at,
                    detail: d,
                });
            }
        };
        for (i, op) in c.ops.iter().enumerate() {
            // (dead tickets to step over: at most one per operation so far)
            hooks.begin_op(64 * (model.len() as u64 * 4 + 64) + 8 * (i as u64 + model.len() as u64));
            let r: Result<(), Fail> = guarded(|| match op {
                QOp::Push(o) => {
                    if model.iter().any(|x| x.id == o.id) {
                        return;
                    }
                    if removed_once.contains(&o.id) {
                        *probes.entry("repush_after_removal").or_insert(0) += 1;
                    }
                    q.push(Arc::new(o.to_lib()));
                    model.push(*o);
                }
                QOp::Pop => {
                    let got = q.pop().map(|a| OrderSpec::of(&a));
                    let want = if model.is_empty() {
                        None
                    } else {
                        Some(model.remove(0))
                    };
                    dg.u64(got.map(|g| g.id.v as u64).unwrap_or(0));
                    if got != want {
                        viol(
                            &mut out,
                            "pop-order",
                            i,
                            format!(
                                "pop returned {:?} but the earliest pushed order still queued is {:?}",
                                got.map(|x| x.brief()),
                                want.map(|x| x.brief())
                            ),
                        );
                        // re-base on what was observed
                        if let Some(g) = got {
                            if let Some(w) = want {
                                model.insert(0, w);
                            }
                            model.retain(|x| x.id != g.id);
                        } else if let Some(w) = want {
                            model.insert(0, w);
                        }
                    }
                    if model.len() > 0 {
                        *probes.entry("pop_with_more_queued").or_insert(0) += 1;
                    }
                }
                QOp::Find(id) => {
                    let got = q.find(id.to_lib()).map(|a| OrderSpec::of(&a));
                    let want = model.iter().find(|x| x.id == *id).cloned();
                    if got != want {
                        viol(
                            &mut out,
                            "find",
                            i,
                            format!("find({}) = {:?}, queued: {:?}", id.short(), got.map(|x| x.brief()), want.map(|x| x.brief())),
                        );
                    }
                }
                QOp::Remove(id) => {
                    let got = q.remove(id.to_lib()).map(|a| OrderSpec::of(&a));
                    let pos = model.iter().position(|x| x.id == *id);
                    let want = pos.map(|p| model.remove(p));
                    if want.is_some() {
                        removed_once.insert(*id);
                        *probes.entry("remove_present").or_insert(0) += 1;
                    }
                    if got != want {
                        viol(
                            &mut out,
                            "remove",
                            i,
                            format!("remove({}) = {:?}, queued: {:?}", id.short(), got.map(|x| x.brief()), want.map(|x| x.brief())),
                        );
                    }
                }
                QOp::Len => {
                    let (l, e) = (q.len(), q.is_empty());
                    if l != model.len() || e != model.is_empty() {
                        viol(
                            &mut out,
                            "len",
                            i,
                            format!("len()={l} is_empty()={e} but {} orders are queued", model.len()),
                        );
                    }
                }
                QOp::ToVec => {
                    let l = q_listing(&q);
                    let mut a = l.clone();
                    let mut b = model.clone();
                    a.sort_by_key(|o| o.id);
                    b.sort_by_key(|o| o.id);
                    if a != b {
                        viol(
                            &mut out,
                            "listing-content",
                            i,
                            format!("to_vec lists {} orders, {} are queued (or fields differ)", l.len(), model.len()),
                        );
                    }
                    if l.windows(2).any(|w| w[0].ts > w[1].ts) {
                        viol(&mut out, "listing-unsorted", i, "to_vec timestamps decrease".into());
                    }
                }
                QOp::Rebuild(k) => {
                    *probes.entry("rebuilds").or_insert(0) += 1;
                    let list: Vec<Arc<Order>> = model.iter().map(|o| Arc::new(o.to_lib())).collect();
                    let built: Result<OrderQueue, String> = match k % 4 {
                        0 => Ok(OrderQueue::from_vec(list)),
                        1 => Ok(OrderQueue::from(list)),
                        2 => OrderQueue::from_str(&q.to_string()).map_err(|e| e.to_string()),
                        _ => serde_json::to_string(&q)
                            .map_err(|e| e.to_string())
                            .and_then(|j| serde_json::from_str::<OrderQueue>(&j).map_err(|e| e.to_string())),
                    };
                    match built {
                        Err(e) => viol(&mut out, "rebuild-fails", i, format!("rebuild {k}: {e}")),
                        Ok(nq) => {
                            let mut a = q_listing(&nq);
                            let mut b = model.clone();
                            a.sort_by_key(|o| o.id);
                            b.sort_by_key(|o| o.id);
                            if a != b || muted(|| nq.len()) != model.len() {
                                viol(
                                    &mut out,
                                    "rebuild-content",
                                    i,
                                    format!("a queue rebuilt through path {k} holds {:?}, expected {:?}", a.iter().map(|x| x.brief()).collect::<Vec<_>>(), b.iter().map(|x| x.brief()).collect::<Vec<_>>()),
                                );
                            }
                            if k % 4 < 2 {
                                // built from an explicit list: it now is the queue, FIFO = list order
                                q = nq;
                            }
                        }
                    }
                }
            });
            hooks.end_op();
            if let Err(f) = r {
                viol(&mut out, "operation-fails", i, format!("{op:?} {}", f.brief()));
                break;
            }
        }
        out.digest = dg.finish();
        out.nontrivial = probes.get("remove_present").cloned().unwrap_or(0) > 0
            && probes.get("pop_with_more_queued").cloned().unwrap_or(0) > 0;
        out.probes = probes;
        out.steps = hooks.steps.load(std::sync::atomic::Ordering::Relaxed);
        out
    }
}

impl Check for C19 {
    fn prop(&self) -> &'static str {
        "C19"
    }
    fn engine(&self) -> &'static str {
        "S"
    }
    fn runs(&self, tier: Tier) -> u64 {
        match tier {
            Tier::Quick => 2_000_000,
            Tier::Thorough => 40_000_000,
        }
    }
    fn run_seed(&self, seed: u64) -> RunOut {
        self.run(&self.make_case(seed))
    }
    fn case_of_seed(&self, seed: u64) -> Value {
        json!({"queue": self.make_case(seed)})
    }
    fn run_case(&self, case: &Value) -> Result<RunOut, String> {
        let c: QCase = serde_json::from_value(case["queue"].clone()).map_err(|e| e.to_string())?;
        Ok(self.run(&c))
    }
    fn minimise(&self, case: &Value, sig: &str) -> (Value, MinStats) {
        let Ok(mut c) = serde_json::from_value::<QCase>(case["queue"].clone()) else {
            return no_min(case);
        };
        let from = c.ops.len();
        let mut attempts = 0;
        let mut progress = true;
        while progress && attempts < 3000 {
            progress = false;
            for i in 0..c.ops.len() {
                let mut d = c.clone();
                d.ops.remove(i);
                attempts += 1;
                if !d.ops.is_empty() && self.run(&d).violations.iter().any(|v| v.sig == sig) {
                    c = d;
                    progress = true;
                    break;
                }
            }
        }
        for i in 0..c.ops.len() {
            if let QOp::Push(o) = &c.ops[i] {
                let mut s = *o;
                s.kind = Kind::Standard;
                s.hid = 0;
                s.vis = 1;
                s.tif = Tif::Gtc;
                let mut d = c.clone();
                d.ops[i] = QOp::Push(s);
                attempts += 1;
                if self.run(&d).violations.iter().any(|v| v.sig == sig) {
                    c = d;
                }
            }
        }
        let to = c.ops.len();
        (
            json!({"queue": c}),
            MinStats {
                attempts,
                from_size: from,
                to_size: to,
            },
        )
    }
    fn rule(&self) -> String {
        "engine S on a bare OrderQueue: seeded sequences of push (fresh id, or an id removed / popped earlier) / pop / find / remove / len+is_empty / to_vec and rebuilds through from_vec, From<Vec>, Display->FromStr and serde, ending in pops; 1 program in 32 is long (60-460 operations), half of those with a row of 33-1030 pushes each followed by the removal of the same id; a quarter of the programs use UUID / ULID ids in pairs with equal bits; FIFO-with-removal list model checked operation by operation; hasher seed and shard count varied; non-trivial = a removal of a queued id and a pop with more orders queued in the same run".into()
    }
    fn assumptions(&self) -> Vec<String> {
        vec!["an id is pushed only while it is not queued (the runner skips other pushes)".into()]
    }
}

// ---------------------------------------------------------------------------
// C08 (second half): concurrent programs on a bare OrderQueue

#[derive(Clone, Debug, PartialEq, Serialize, Deserialize)]
pub struct QProgram {
    pub hash_seed: u64,
    pub shards: usize,
    pub preload: Vec<OrderSpec>,
    pub threads: Vec<Vec<QOp>>,
    pub strategy: Strategy,
    pub sched_seed: u64,
}

#[derive(Clone, Debug)]
enum QResp {
    Pushed,
    Popped(Option<IdS>),
    Removed(IdS, bool),
    Other,
    Failed(String),
}

pub fn gen_qprogram(seed: u64) -> QProgram {
    let mut k = Rng::stream(seed, 1);
    let mut w = Rng::stream(seed, 2);
    let n_pre = k.below(4) as usize;
    let n_thr = 2 + k.below(3) as usize;
    let mut next = 0u128;
    let mut mk = |w: &mut Rng| {
        next += 1;
        let mut o = crate::wire::any_order(w);
        o.id = IdS {
            ulid: false,
            v: next,
        };
        o.ts = next as u64;
        o
    };
    let preload: Vec<OrderSpec> = (0..n_pre).map(|_| mk(&mut w)).collect();
    let mut threads: Vec<Vec<QOp>> = vec![];
    let mut pushes: Vec<IdS> = preload.iter().map(|o| o.id).collect();
    let mut plans: Vec<Vec<u8>> = vec![];
    for _ in 0..n_thr {
        let len = 1 + k.below(4) as usize;
        plans.push((0..len).map(|_| w.weighted(&[5, 5, 3, 1, 1, 1]) as u8).collect());
    }
    let mut planned: Vec<Vec<OrderSpec>> = vec![];
    for p in &plans {
        let v: Vec<OrderSpec> = p.iter().filter(|x| **x == 0).map(|_| mk(&mut w)).collect();
        for o in &v {
            pushes.push(o.id);
        }
        planned.push(v);
    }
    for (t, p) in plans.iter().enumerate() {
        let mut pi = 0;
        let mut ops = vec![];
        for x in p {
            ops.push(match x {
                0 => {
                    pi += 1;
                    QOp::Push(planned[t][pi - 1])
                }
                1 => QOp::Pop,
                2 => QOp::Remove(if pushes.is_empty() {
                    IdS { ulid: false, v: 999 }
                } else {
                    *w.pick(&pushes)
                }),
                3 => QOp::Find(if pushes.is_empty() {
                    IdS { ulid: false, v: 999 }
                } else {
                    *w.pick(&pushes)
                }),
                4 => QOp::Len,
                _ => QOp::ToVec,
            });
        }
        threads.push(ops);
    }
    QProgram {
        hash_seed: k.next(),
        shards: *k.pick(&[2usize, 4, 16, 64]),
        preload,
        threads,
        strategy: gen_strategy(&mut k, n_thr),
        sched_seed: Rng::stream(seed, 3).next(),
    }
}

pub fn run_qprogram(p: &QProgram) -> (RunOut, Vec<u8>) {
    let mut out = RunOut::default();
    let n = p.threads.len();
    let setup = SeqHooks::new(ClockCfg::default(), p.hash_seed, p.shards);
    let q = {
        let _i = Installed::new(setup.clone());
        let q = OrderQueue::new();
        for o in &p.preload {
            q.push(Arc::new(o.to_lib()));
        }
        Arc::new(q)
    };
    let total: usize = p.threads.iter().map(|t| t.len()).sum();
    let sched = Sched::new(
        n,
        p.strategy.clone(),
        p.sched_seed,
        4000 + 400 * total as u64,
        ClockCfg::default(),
        p.hash_seed,
        p.shards,
        12 * total as u64 + 4,
    );
    let mut jobs: Vec<Box<dyn FnOnce() -> Vec<QResp> + Send>> = vec![];
    for (tid, ops) in p.threads.iter().enumerate() {
        let sched = sched.clone();
        let q = q.clone();
        let ops = ops.clone();
        jobs.push(Box::new(move || {
            let _i = Installed::new(Arc::new(ThreadHooks {
                sched: sched.clone(),
                tid,
            }));
            let mut rs = vec![];
            sched.thread_start(tid);
            for (i, op) in ops.iter().enumerate() {
                let r = guarded(|| {
                    sched.op_begin(tid, i);
                    let r = match op {
                        QOp::Push(o) => {
                            q.push(Arc::new(o.to_lib()));
                            QResp::Pushed
                        }
                        QOp::Pop => QResp::Popped(q.pop().map(|a| IdS::of(a.id()))),
                        QOp::Remove(id) => QResp::Removed(*id, q.remove(id.to_lib()).is_some()),
                        QOp::Find(id) => {
                            let _ = q.find(id.to_lib());
                            QResp::Other
                        }
                        QOp::Len => {
                            let _ = (q.len(), q.is_empty());
                            QResp::Other
                        }
                        _ => {
                            let _ = q.to_vec();
                            QResp::Other
                        }
                    };
                    sched.op_end(tid, i);
                    r
                });
                rs.push(match r {
                    Ok(r) => r,
                    Err(f) => QResp::Failed(f.brief()),
                });
            }
            sched.finish(tid);
            rs
        }));
    }
    let s2 = sched.clone();
    let results = crate::pool::run_jobs(jobs, move || {
        s2.release_first(n) && s2.wait_done(n, Duration::from_secs(30))
    });
    let mut responses: Vec<Vec<QResp>> = vec![];
    for r in results {
        match r {
            Some(r) => responses.push(r),
            None => {
                out.violations.push(Violation {
                    prop: "C08".into(),
                    sig: "HARNESS/watchdog".into(),
                    at: 0,
                    detail: "queue program threads did not finish".into(),
                });
                return (out, vec![]);
            }
        }
    }
    let (trace_len, schedule, steps, switches, aborted) = {
        let g = sched.m.lock().unwrap();
        (g.trace.len(), g.schedule.clone(), g.steps, g.switches, g.aborted)
    };
    out.steps = steps;
    out.faults.insert("preemptions", switches);
    let mut dg = Digest::default();
    {
        let g = sched.m.lock().unwrap();
        crate::conc::digest_trace(&mut dg, &g.trace);
    }
    let _ = trace_len;
    let mut viol = |out: &mut RunOut, sig: &str, d: String| {
        let full = format!("C08/{sig}");
        if !out.violations.iter().any(|v| v.sig == full) {
            out.violations.push(Violation {
                prop: "C08".into(),
                sig: full,
                at: 0,
                detail: d,
            });
        }
    };
    if aborted {
        viol(&mut out, "queue-no-return", "queue program exceeded its step budget".into());
        return (out, schedule);
    }
    // ledger
    let mut pushed: BTreeSet<IdS> = p.preload.iter().map(|o| o.id).collect();
    let mut handed: BTreeMap<IdS, u32> = BTreeMap::new();
    for (t, rs) in responses.iter().enumerate() {
        for (i, r) in rs.iter().enumerate() {
            match r {
                QResp::Pushed => {
                    if let QOp::Push(o) = &p.threads[t][i] {
                        pushed.insert(o.id);
                    }
                }
                QResp::Popped(Some(id)) => *handed.entry(*id).or_insert(0) += 1,
                QResp::Removed(id, true) => *handed.entry(*id).or_insert(0) += 1,
                QResp::Failed(m) => viol(&mut out, "queue-operation-fails", format!("thread {t} op {i}: {m}")),
                _ => {}
            }
            dg.str(&format!("{r:?}"));
        }
    }
    // drain from the driver
    let _i = Installed::new(setup.clone());
    setup.begin_op(64 * (pushed.len() as u64 * 4 + 64));
    let drained = guarded(|| {
        let mut v = vec![];
        while let Some(a) = q.pop() {
            v.push(IdS::of(a.id()));
        }
        v
    });
    setup.end_op();
    match drained {
        Err(f) => viol(&mut out, "queue-drain-fails", format!("popping until None {}", f.brief())),
        Ok(v) => {
            for id in v {
                *handed.entry(id).or_insert(0) += 1;
            }
            let (l, e, tv) = muted(|| (q.len(), q.is_empty(), q.to_vec().len()));
            if l != 0 || !e || tv != 0 {
                viol(
                    &mut out,
                    "queue-stranded",
                    format!("after popping until None: len()={l} is_empty()={e} to_vec().len()={tv} — an order is in the queue but unreachable by pop"),
                );
            }
            for id in &pushed {
                let c = handed.get(id).cloned().unwrap_or(0);
                if c != 1 {
                    viol(
                        &mut out,
                        "queue-hand-out",
                        format!("order {} was pushed once and handed out {c} times", id.short()),
                    );
                }
            }
            for (id, _) in &handed {
                if !pushed.contains(id) {
                    viol(&mut out, "queue-hand-out", format!("order {} was handed out but never pushed", id.short()));
                }
            }
        }
    }
    out.digest = dg.finish();
    out.nontrivial = switches > 0;
    out.strategy = Some(p.strategy.name());
    (out, schedule)
}

// ---------------------------------------------------------------------------
// C08 = level programs + queue programs

pub struct C08 {
    pub level: TCheck,
}

impl Check for C08 {
    fn prop(&self) -> &'static str {
        "C08"
    }
    fn engine(&self) -> &'static str {
        "T"
    }
    fn runs(&self, tier: Tier) -> u64 {
        self.level.runs(tier)
    }
    fn run_seed(&self, seed: u64) -> RunOut {
        if seed % 3 == 0 {
            let mut o = run_qprogram(&gen_qprogram(seed)).0;
            o.probes.insert("queue_programs", 1);
            o
        } else {
            self.level.run_seed(seed)
        }
    }
    fn case_of_seed(&self, seed: u64) -> Value {
        if seed % 3 == 0 {
            json!({"qprogram": gen_qprogram(seed)})
        } else {
            self.level.case_of_seed(seed)
        }
    }
    fn run_case(&self, case: &Value) -> Result<RunOut, String> {
        if case.get("qprogram").is_some() {
            let p: QProgram =
                serde_json::from_value(case["qprogram"].clone()).map_err(|e| e.to_string())?;
            Ok(run_qprogram(&p).0)
        } else {
            self.level.run_case(case)
        }
    }
    fn minimise(&self, case: &Value, sig: &str) -> (Value, MinStats) {
        if case.get("qprogram").is_none() {
            return self.level.minimise(case, sig);
        }
        let Ok(p) = serde_json::from_value::<QProgram>(case["qprogram"].clone()) else {
            return no_min(case);
        };
        let from = p.preload.len() + p.threads.iter().map(|t| t.len()).sum::<usize>();
        let has = |o: &RunOut| o.violations.iter().any(|v| v.sig == sig);
        let (o, sch) = run_qprogram(&p);
        let mut attempts = 1u64;
        if !has(&o) {
            return no_min(case);
        }
        let mut best = p.clone();
        best.strategy = Strategy::Replay(sch);
        let mut progress = true;
        while progress && attempts < 5000 {
            progress = false;
            let mut cands: Vec<QProgram> = vec![];
            for t in 0..best.threads.len() {
                for i in 0..best.threads[t].len() {
                    let mut c = best.clone();
                    c.threads[t].remove(i);
                    cands.push(c);
                }
            }
            for i in 0..best.preload.len() {
                let mut c = best.clone();
                c.preload.remove(i);
                cands.push(c);
            }
            'c: for c in cands {
                if c.threads.iter().all(|t| t.is_empty()) {
                    continue;
                }
                let (o, sch) = run_qprogram(&c);
                attempts += 1;
                if has(&o) {
                    best = c;
                    best.strategy = Strategy::Replay(sch);
                    progress = true;
                    break 'c;
                }
                let mut r = Rng::new(attempts);
                for _ in 0..60 {
                    let mut d = c.clone();
                    d.strategy = Strategy::Sticky(80);
                    d.sched_seed = r.next();
                    let (o, sch) = run_qprogram(&d);
                    attempts += 1;
                    if has(&o) {
                        best = d;
                        best.strategy = Strategy::Replay(sch);
                        progress = true;
                        break 'c;
                    }
                }
            }
        }
        let to = best.preload.len() + best.threads.iter().map(|t| t.len()).sum::<usize>();
        (
            json!({"qprogram": best}),
            MinStats {
                attempts,
                from_size: from,
                to_size: to,
            },
        )
    }
    fn rule(&self) -> String {
        self.level.rule()
    }
    fn assumptions(&self) -> Vec<String> {
        self.level.assumptions()
    }
}

// ---------------------------------------------------------------------------
// C14: id generator under the scheduler

#[derive(Clone, Debug, PartialEq, Serialize, Deserialize)]
pub struct GenProgram {
    #[serde(with = "hex128")]
    pub ns: u128,
    /// 0: fresh generator (created by program thread 0, which also calls it);
    /// otherwise the generator is deserialized from JSON with this counter value
    #[serde(default)]
    pub start: u64,
    pub calls: Vec<u32>,
    pub strategy: Strategy,
    pub sched_seed: u64,
}

pub struct C14;

impl C14 {
    fn make_case(&self, seed: u64) -> GenProgram {
        let mut k = Rng::stream(seed, 1);
        let n = 2 + k.below(5) as usize;
        let ns = match k.below(4) {
            0 => 0,
            1 => u128::MAX,
            2 => 0x6ba7b8109dad11d180b400c04fd430c8,
            _ => k.u128(),
        };
        let big = k.chance(1, 6);
        let start = if k.chance(1, 4) {
            *k.pick(&[
                1u64,
                9,
                99_999,
                (1 << 32) - 3,
                999_999_999_999_999,
                9_999_999_999_999_990,
                10_000_000_000_000_000,
                99_999_999_999_999_995,
                (1 << 63) - 2,
                u64::MAX - 100_000,
                u64::MAX - 2,
                4_090,
                5_000,
                65_530,
            ])
        } else {
            0
        };
        GenProgram {
            ns,
            start,
            calls: (0..n)
                .map(|_| 1 + k.below(if big { 50 } else { 6 }) as u32)
                .collect(),
            strategy: gen_strategy(&mut k, n),
            sched_seed: Rng::stream(seed, 3).next(),
        }
    }

    fn run(&self, p: &GenProgram) -> (RunOut, Vec<u8>) {
        let mut out = RunOut::default();
        let n = p.calls.len();
        let total: u64 = p.calls.iter().map(|c| *c as u64).sum();
        let cell: Arc<std::sync::OnceLock<Arc<UuidGenerator>>> = Arc::new(std::sync::OnceLock::new());
        let make = {
            let (ns, start) = (p.ns, p.start);
            move || -> UuidGenerator {
                if start == 0 {
                    UuidGenerator::new(Uuid::from_u128(ns))
                } else {
                    let j = format!(
                        "{{\"namespace\":\"{}\",\"counter\":{}}}",
                        Uuid::from_u128(ns),
                        start
                    );
                    serde_json::from_str(&j).expect("generator JSON")
                }
            }
        };
        let sched = Sched::new(
            n,
            p.strategy.clone(),
            p.sched_seed,
            1000 + total * 16,
            ClockCfg::default(),
            1,
            4,
            total * 2 + 2,
        );
        let mut jobs: Vec<Box<dyn FnOnce() -> Vec<Uuid> + Send>> = vec![];
        for (tid, c) in p.calls.iter().enumerate() {
            let sched = sched.clone();
            let cell = cell.clone();
            let make = make.clone();
            let c = *c;
            jobs.push(Box::new(move || {
                let _i = Installed::new(Arc::new(ThreadHooks {
                    sched: sched.clone(),
                    tid,
                }));
                let mut v = vec![];
                // the generator is created by program thread 0 (which also uses it), before any
                // thread gets its first turn
                if tid == 0 {
                    let _ = cell.set(Arc::new(pricelevel::verif::muted(&make)));
                }
                sched.thread_start(tid);
                let g = loop {
                    if let Some(g) = cell.get() {
                        break g.clone();
                    }
                    std::thread::yield_now();
                };
                let _ = guarded(|| {
                    sched.op_begin(tid, 0);
                    for _ in 0..c {
                        v.push(g.next());
                    }
                    sched.op_end(tid, 0);
                });
                sched.finish(tid);
                v
            }));
        }
        let s2 = sched.clone();
        let results = crate::pool::run_jobs(jobs, move || {
            s2.release_first(n) && s2.wait_done(n, Duration::from_secs(30))
        });
        let mut all: Vec<Uuid> = vec![];
        for r in results {
            match r {
                Some(v) => all.extend(v),
                None => {
                    out.violations.push(Violation {
                        prop: "C14".into(),
                        sig: "HARNESS/watchdog".into(),
                        at: 0,
                        detail: "generator threads did not finish".into(),
                    });
                    return (out, vec![]);
                }
            }
        }
        let (schedule, steps, switches) = {
            let g = sched.m.lock().unwrap();
            (g.schedule.clone(), g.steps, g.switches)
        };
        out.steps = steps;
        out.faults.insert("preemptions", switches);
        out.strategy = Some(p.strategy.name());
        // oracle: set equality with a fresh sequential generator; reproducibility
        let mut expect: BTreeSet<Uuid> = BTreeSet::new();
        let mut repro_ok = true;
        let want = total as usize;
        let oracle = guarded(|| {
            let reference = make();
            let twin = make();
            muted(|| {
                for _ in 0..want {
                    let a = reference.next();
                    let b = twin.next();
                    if a != b {
                        repro_ok = false;
                    }
                    expect.insert(a);
                }
            })
        });
        if oracle.is_err() || all.len() != want {
            out.violations.push(Violation {
                prop: "C14".into(),
                sig: "C14/next-fails".into(),
                at: 0,
                detail: format!(
                    "{} of {} calls returned an id (a call panicked: {:?}); generator starts at counter {}",
                    all.len(),
                    want,
                    oracle.err().map(|f| f.brief()),
                    p.start
                ),
            });
            out.digest = 1;
            return (out, schedule);
        }
        let got: BTreeSet<Uuid> = all.iter().cloned().collect();
        let mut dg = Digest::default();
        for s in &schedule {
            dg.u64(*s as u64);
        }
        dg.u64(p.ns as u64);
        dg.u64(p.start);
        out.digest = dg.finish();
        out.nontrivial = switches > 0;
        if got.len() != all.len() {
            out.violations.push(Violation {
                prop: "C14".into(),
                sig: "C14/duplicate-id".into(),
                at: 0,
                detail: format!(
                    "{} calls on one generator returned only {} distinct ids",
                    all.len(),
                    got.len()
                ),
            });
        } else if got != expect {
            out.violations.push(Violation {
                prop: "C14".into(),
                sig: "C14/not-the-sequential-ids".into(),
                at: 0,
                detail: format!(
                    "the {} ids issued concurrently are not the first {} ids of a sequential generator with the same namespace and starting point ({})",
                    all.len(),
                    all.len(),
                    p.start
                ),
            });
        }
        // restart: the generator's durable form (its JSON) is read back after the run and the
        // revived generator goes on; it must continue exactly where a sequential generator
        // continues and must not repeat anything issued before the restart
        if let Some(g) = cell.get() {
            let g = g.clone();
            let revived = guarded(|| {
                muted(|| {
                    let j = serde_json::to_string(&*g).map_err(|e| e.to_string())?;
                    let r: UuidGenerator = serde_json::from_str(&j).map_err(|e| e.to_string())?;
                    Ok::<Vec<Uuid>, String>((0..4).map(|_| r.next()).collect())
                })
            });
            match revived {
                Ok(Ok(more)) => {
                    *out.faults.entry("generator_restarts").or_insert(0) += 1;
                    if more.iter().any(|u| got.contains(u)) {
                        out.violations.push(Violation {
                            prop: "C14".into(),
                            sig: "C14/duplicate-after-restart".into(),
                            at: 0,
                            detail: format!(
                                "a generator serialized after {} calls (start {}) and read back re-issues an id it had issued before",
                                all.len(),
                                p.start
                            ),
                        });
                    }
                }
                Ok(Err(m)) => out.violations.push(Violation {
                    prop: "C14".into(),
                    sig: "C14/restart-fails".into(),
                    at: 0,
                    detail: format!("generator does not survive its own JSON form: {m}"),
                }),
                Err(f) => out.violations.push(Violation {
                    prop: "C14".into(),
                    sig: "C14/restart-fails".into(),
                    at: 0,
                    detail: format!("generator JSON round trip {}", f.brief()),
                }),
            }
        }
        // one logical generator seen through several restarts: windows of 6 consecutive calls
        // starting at counters around the powers 2^8, 2^16, 2^32, 2^48 (and at 0) never share an id
        {
            let ns = p.ns;
            let w = guarded(|| {
                muted(|| {
                    let mut seen: BTreeMap<Uuid, u64> = BTreeMap::new();
                    let mut clash: Option<(u64, u64)> = None;
                    for st in [0u64, (1 << 8) - 3, (1 << 16) - 3, (1 << 32) - 3, (1 << 48) - 3, (1 << 63) - 3] {
                        let g: UuidGenerator = if st == 0 {
                            UuidGenerator::new(Uuid::from_u128(ns))
                        } else {
                            let j = format!(
                                "{{\"namespace\":\"{}\",\"counter\":{}}}",
                                Uuid::from_u128(ns),
                                st
                            );
                            serde_json::from_str(&j).expect("generator JSON")
                        };
                        for i in 0..6u64 {
                            if let Some(prev) = seen.insert(g.next(), st + i) {
                                clash.get_or_insert((prev, st + i));
                            }
                        }
                    }
                    clash
                })
            });
            match w {
                Ok(None) => {}
                Ok(Some((a, b))) => out.violations.push(Violation {
                    prop: "C14".into(),
                    sig: "C14/duplicate-across-restarts".into(),
                    at: 0,
                    detail: format!(
                        "the same namespace issues the same id at call {a} and at call {b} (generator restarted from its stored counter in between)"
                    ),
                }),
                Err(f) => out.violations.push(Violation {
                    prop: "C14".into(),
                    sig: "C14/next-fails".into(),
                    at: 0,
                    detail: format!("window generators {}", f.brief()),
                }),
            }
        }
        if !repro_ok || expect.len() != all.len() {
            out.violations.push(Violation {
                prop: "C14".into(),
                sig: "C14/not-reproducible".into(),
                at: 0,
                detail: "two fresh generators with the same namespace disagree, or a sequential generator repeats an id".into(),
            });
        }
        (out, schedule)
    }
}

impl Check for C14 {
    fn prop(&self) -> &'static str {
        "C14"
    }
    fn engine(&self) -> &'static str {
        "T"
    }
    fn runs(&self, tier: Tier) -> u64 {
        match tier {
            Tier::Quick => 400_000,
            Tier::Thorough => 8_000_000,
        }
    }
    fn run_seed(&self, seed: u64) -> RunOut {
        self.run(&self.make_case(seed)).0
    }
    fn case_of_seed(&self, seed: u64) -> Value {
        json!({"generator_program": self.make_case(seed)})
    }
    fn run_case(&self, case: &Value) -> Result<RunOut, String> {
        let p: GenProgram = serde_json::from_value(case["generator_program"].clone())
            .map_err(|e| e.to_string())?;
        Ok(self.run(&p).0)
    }
    fn minimise(&self, case: &Value, sig: &str) -> (Value, MinStats) {
        let Ok(p) = serde_json::from_value::<GenProgram>(case["generator_program"].clone()) else {
            return no_min(case);
        };
        let from: usize = p.calls.iter().map(|c| *c as usize).sum();
        let has = |o: &RunOut| o.violations.iter().any(|v| v.sig == sig);
        let mut attempts = 0u64;
        let mut best = p.clone();
        let (o, sch) = self.run(&best);
        if has(&o) {
            best.strategy = Strategy::Replay(sch);
        }
        let mut progress = true;
        while progress && attempts < 4000 {
            progress = false;
            let mut cands: Vec<GenProgram> = vec![];
            for i in 0..best.calls.len() {
                if best.calls[i] > 1 {
                    let mut c = best.clone();
                    c.calls[i] -= 1;
                    cands.push(c);
                }
                if best.calls.len() > 2 {
                    let mut c = best.clone();
                    c.calls.remove(i);
                    cands.push(c);
                }
            }
            'c: for c in cands {
                let mut r = Rng::new(attempts + 7);
                for j in 0..40 {
                    let mut d = c.clone();
                    if j > 0 {
                        d.strategy = if j % 2 == 0 {
                            Strategy::Uniform
                        } else {
                            Strategy::Sticky(50)
                        };
                        d.sched_seed = r.next();
                    }
                    let (o, sch) = self.run(&d);
                    attempts += 1;
                    if has(&o) {
                        best = d;
                        best.strategy = Strategy::Replay(sch);
                        progress = true;
                        break 'c;
                    }
                }
            }
        }
        let to: usize = best.calls.iter().map(|c| *c as usize).sum();
        (
            json!({"generator_program": best}),
            MinStats {
                attempts,
                from_size: from,
                to_size: to,
            },
        )
    }
    fn rule(&self) -> String {
        "engine T on a UuidGenerator alone: 2-6 threads x 1-50 next() calls, namespace from {nil, all-ones, DNS, random}, every atomic operation of the generator a scheduling point; oracle: no duplicate, and the set of ids equals the first N ids of a fresh sequential generator with the same namespace (computed with the real generator, no second UUIDv5 implementation); two fresh generators stepped together agree; restart: the generator is serialized after the run, read back and must not re-issue an id, and six generators of the same namespace revived at counters 0, 2^8-3, 2^16-3, 2^32-3, 2^48-3, 2^63-3 issue 36 different ids; transaction ids of matches sharing a generator are covered by C03's uniqueness check; non-trivial = at least one pre-emption happened".into()
    }
    fn assumptions(&self) -> Vec<String> {
        vec!["sequentially consistent memory; uuid crate trusted".into()]
    }
}

// ---------------------------------------------------------------------------
// C15 = sequential histories + concurrent programs

pub struct C15 {
    pub s: SCheck,
    pub t: TCheck,
}

impl Check for C15 {
    fn prop(&self) -> &'static str {
        "C15"
    }
    fn engine(&self) -> &'static str {
        "S+T"
    }
    fn runs(&self, tier: Tier) -> u64 {
        match tier {
            Tier::Quick => 600_000,
            Tier::Thorough => 12_000_000,
        }
    }
    fn run_seed(&self, seed: u64) -> RunOut {
        if seed % 2 == 0 {
            let mut o = self.s.run_seed(seed);
            o.strategy = Some("sequential");
            o
        } else {
            self.t.run_seed(seed)
        }
    }
    fn case_of_seed(&self, seed: u64) -> Value {
        if seed % 2 == 0 {
            self.s.case_of_seed(seed)
        } else {
            self.t.case_of_seed(seed)
        }
    }
    fn run_case(&self, case: &Value) -> Result<RunOut, String> {
        if case.get("program").is_some() {
            self.t.run_case(case)
        } else {
            self.s.run_case(case)
        }
    }
    fn minimise(&self, case: &Value, sig: &str) -> (Value, MinStats) {
        if case.get("program").is_some() {
            self.t.minimise(case, sig)
        } else {
            self.s.minimise(case, sig)
        }
    }
    fn rule(&self) -> String {
        "half of the runs are engine S histories (statistics compared with the recorded events after EVERY operation, as deltas since the level object was constructed), half are engine T programs (compared at quiescence and after the drain); four figures: orders added, orders removed by cancel / price move, quantity executed = sum of all transaction quantities, value executed = that x level price (checked only when every order is at the level's price); non-trivial (S) = a multi-transaction match or a successful removal, (T) = contended program".into()
    }
    fn assumptions(&self) -> Vec<String> {
        let mut v = self.s.assumptions();
        v.extend(self.t.assumptions());
        v.push("positive quantities; orders at the level's price for the value figure".into());
        v
    }
}

#[allow(dead_code)]
pub fn unused(_: TKnobs, _: &dyn Fn() -> ClockCfg) {
    let _ = gen_clock;
    let _ = read_aggs;
    let _ = read_listing;
}
