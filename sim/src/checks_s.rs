//! Checks decided by engine S (sequential histories): C01 C02 C04 C05 C06 C07 C10 (and the
//! sequential half of C15).

use crate::core::{ClockCfg, Installed, SeqHooks};
use crate::driver::{Check, MinStats, RunOut, Tier};
use crate::genh::{Profile, gen_history};
use crate::prng::{Digest, Rng};
use crate::seq::{History, Outcome, Violation, check_match_against, run_blind, run_history};
use crate::spec::*;
use pricelevel::{MatchResult, Transaction};
use serde_json::{Value, json};
use uuid::Uuid;

pub struct SCheck {
    pub prop: &'static str,
    pub profile: Profile,
    pub nontrivial: fn(&Outcome) -> bool,
    pub twin: bool,
    pub quick: u64,
    pub thorough: u64,
    pub rule: &'static str,
}

fn probe(o: &Outcome, k: &str) -> u64 {
    o.probes.get(k).cloned().unwrap_or(0)
}

pub fn strip_reads(h: &History) -> History {
    History {
        knobs: h.knobs.clone(),
        ops: h.ops.iter().filter(|o| o.is_mutating()).cloned().collect(),
    }
}

/// C07 purity: the same history with and without read-only calls must answer identically.
pub fn twin_violation(h: &History, with: &Outcome) -> Option<Violation> {
    if with.aborted_at.is_some() {
        return None;
    }
    // blind twin: the same mutating calls with nothing at all in between (the observed run reads
    // the listing, the aggregates and the statistics after every step, so a read path with a
    // side effect would otherwise act on both twins alike)
    if let Some((resp, fin)) = run_blind(h, &with.resp_ops) {
        if let Some(i) = (0..resp.len()).find(|&i| with.responses.get(i) != Some(&resp[i])) {
            return Some(Violation {
                prop: "C07".into(),
                sig: "C07/blind-twin-response-differs".into(),
                at: with.resp_ops.get(i).copied().unwrap_or(0),
                detail: format!(
                    "mutating operation #{i} answered {:?} in the observed run (listing, aggregates and statistics read after every step) and {:?} when no read-only call is made at all",
                    with.responses.get(i),
                    resp.get(i)
                ),
            });
        }
        if let Some(f) = fin {
            if f != with.final_state {
                return Some(Violation {
                    prop: "C07".into(),
                    sig: "C07/blind-twin-final-state-differs".into(),
                    at: h.ops.len(),
                    detail: format!(
                        "final state of the observed run {} / with no read-only call at all {}",
                        with.final_state, f
                    ),
                });
            }
        }
    }
    if !h.ops.iter().any(|o| !o.is_mutating()) {
        return None;
    }
    let b = run_history(&strip_reads(h));
    if b.aborted_at.is_some() {
        return None;
    }
    if b.responses != with.responses {
        let i = b
            .responses
            .iter()
            .zip(with.responses.iter())
            .position(|(x, y)| x != y)
            .unwrap_or(b.responses.len().min(with.responses.len()));
        return Some(Violation {
            prop: "C07".into(),
            sig: "C07/twin-response-differs".into(),
            at: i,
            detail: format!(
                "mutating operation #{i} answered {:?} with read-only calls inserted and {:?} without",
                with.responses.get(i),
                b.responses.get(i)
            ),
        });
    }
    if b.final_state != with.final_state {
        return Some(Violation {
            prop: "C07".into(),
            sig: "C07/twin-final-state-differs".into(),
            at: h.ops.len(),
            detail: format!(
                "final state with reads {} / without {}",
                with.final_state, b.final_state
            ),
        });
    }
    None
}

/// C02: a match result built incrementally keeps remaining = initial - sum.
pub fn incremental_result_violation(seed: u64) -> Option<Violation> {
    let mut r = Rng::stream(seed, 9);
    let hooks = SeqHooks::new(ClockCfg::default(), 1, 4);
    let _i = Installed::new(hooks);
    let initial = match r.below(4) {
        0 => r.below(50),
        1 => 1 + r.below(1_000_000),
        2 => u64::MAX - r.below(3),
        _ => 1 << (r.below(63) as u32),
    };
    let taker = IdS {
        ulid: r.chance(1, 2),
        v: r.u128(),
    }
    .to_lib();
    let mut m = MatchResult::new(taker, initial);
    let n = r.below(8);
    let mut sum: u64 = 0;
    for i in 0..n {
        let room = initial - sum;
        if room == 0 {
            break;
        }
        let q = match r.below(3) {
            0 => room,
            1 => 1,
            _ => 1 + r.below(room),
        };
        let t = Transaction::new(
            Uuid::from_u128(r.u128()),
            taker,
            IdS {
                ulid: false,
                v: i as u128 + 1,
            }
            .to_lib(),
            1 + r.below(3),
            q,
            side_of(r.chance(1, 2)),
        );
        m.add_transaction(t);
        sum += q;
        let ok = m.remaining_quantity == initial - sum
            && m.is_complete == (initial - sum == 0)
            && m.executed_quantity() == sum
            && m.transactions.as_vec().len() == (i + 1) as usize;
        if !ok {
            return Some(Violation {
                prop: "C02".into(),
                sig: "C02/incremental-result".into(),
                at: i as usize,
                detail: format!(
                    "MatchResult::new(_, {initial}) after transactions summing to {sum}: remaining={} is_complete={} executed={}",
                    m.remaining_quantity,
                    m.is_complete,
                    m.executed_quantity()
                ),
            });
        }
    }
    None
}

impl SCheck {
    fn out_of(&self, h: &History, seed: Option<u64>) -> RunOut {
        let o = run_history(h);
        let mut violations: Vec<Violation> = o
            .violations
            .iter()
            .filter(|v| v.prop == self.prop)
            .cloned()
            .collect();
        if self.twin {
            if let Some(v) = twin_violation(h, &o) {
                violations.push(v);
            }
        }
        if self.prop == "C02" {
            if let Some(s) = seed {
                if let Some(v) = incremental_result_violation(s) {
                    violations.push(v);
                }
            }
        }
        let mut faults = std::collections::BTreeMap::new();
        if o.clock_jumps > 0 {
            faults.insert("clock_jump", o.clock_jumps);
        }
        let r = probe(&o, "restores");
        if r > 0 {
            faults.insert("crash_restart", r);
        }
        let l = probe(&o, "restores_with_lying_aggregates");
        if l > 0 {
            faults.insert("lying_aggregates", l);
        }
        let mut sd = Digest::default();
        sd.str(&o.final_state);
        RunOut {
            violations,
            digest: o.digest,
            nontrivial: (self.nontrivial)(&o),
            probes: o.probes.clone(),
            steps: o.steps,
            clock_ms: o.clock_ms,
            faults,
            strategy: None,
            inner_evals: 0,
            inner_digests: vec![],
            state_digests: vec![sd.finish()],
        }
    }
}

pub fn history_size(h: &History) -> usize {
    h.ops.len()
}

/// Delta-debugging on the operation list, then per-operation simplification, then knobs.
pub fn minimise_history(h0: &History, fails: &dyn Fn(&History) -> bool) -> (History, u64) {
    let mut h = h0.clone();
    let mut attempts = 0u64;
    // (histories of 10^5 operations take a noticeable fraction of a second each: fewer attempts)
    let cap = if h0.ops.len() > 20_000 { 150u64 } else { 4000u64 };
    // ddmin
    let mut n = 2usize;
    while h.ops.len() >= 2 && attempts < cap {
        let len = h.ops.len();
        let chunk = len.div_ceil(n);
        let mut reduced = false;
        let mut i = 0;
        while i < len {
            let mut c = h.clone();
            let end = (i + chunk).min(len);
            c.ops.drain(i..end);
            attempts += 1;
            if !c.ops.is_empty() && fails(&c) {
                h = c;
                n = n.saturating_sub(1).max(2);
                reduced = true;
                break;
            }
            i += chunk;
        }
        if !reduced {
            if chunk <= 1 {
                break;
            }
            n = (n * 2).min(len);
        }
    }
    // per-op simplification
    let mut changed = true;
    while changed && attempts < cap {
        changed = false;
        for i in 0..h.ops.len() {
            let cands: Vec<Op> = match &h.ops[i] {
                Op::Add(o) => {
                    let mut v = vec![];
                    if o.kind != Kind::Standard {
                        let mut s = *o;
                        s.kind = Kind::Standard;
                        s.hid = 0;
                        s.p1 = 0;
                        s.p2 = 0;
                        s.p2_some = false;
                        s.auto = false;
                        s.off = 0;
                        s.peg = 0;
                        v.push(Op::Add(s));
                    }
                    if o.tif != Tif::Gtc {
                        let mut s = *o;
                        s.tif = Tif::Gtc;
                        v.push(Op::Add(s));
                    }
                    if o.price != h.knobs.price {
                        let mut s = *o;
                        s.price = h.knobs.price;
                        v.push(Op::Add(s));
                    }
                    if o.ts != i as u64 + 1 {
                        let mut s = *o;
                        s.ts = i as u64 + 1;
                        v.push(Op::Add(s));
                    }
                    for nv in [1u64, o.vis / 2, o.vis.saturating_sub(1)] {
                        if nv < o.vis && nv > 0 {
                            let mut s = *o;
                            s.vis = nv;
                            v.push(Op::Add(s));
                        }
                    }
                    for nh in [0u64, o.hid / 2, o.hid.saturating_sub(1)] {
                        if nh < o.hid {
                            let mut s = *o;
                            s.hid = nh;
                            v.push(Op::Add(s));
                        }
                    }
                    if o.id.v > 0xffff {
                        let mut s = *o;
                        s.id = IdS {
                            ulid: o.id.ulid,
                            v: o.id.v & 0xffff,
                        };
                        // only valid if no other op refers to the id; keep it simple: skip
                        let _ = s;
                    }
                    v
                }
                Op::Match { qty, taker } => {
                    let mut v = vec![];
                    for nq in [1u64, qty / 2, qty.saturating_sub(1)] {
                        if nq < *qty && nq > 0 {
                            v.push(Op::Match {
                                qty: nq,
                                taker: *taker,
                            });
                        }
                    }
                    v
                }
                Op::Upd(u) => {
                    let mut v = vec![];
                    for nq in [1u64, u.qty / 2] {
                        if nq < u.qty && nq > 0 {
                            let mut s = *u;
                            s.qty = nq;
                            v.push(Op::Upd(s));
                        }
                    }
                    v
                }
                Op::Restore { path, lie } => {
                    let mut v = vec![];
                    if *lie != 0 {
                        v.push(Op::Restore {
                            path: *path,
                            lie: 0,
                        });
                    }
                    if *path != 0 {
                        v.push(Op::Restore { path: 0, lie: *lie });
                    }
                    v
                }
                _ => vec![],
            };
            for c in cands {
                let mut hc = h.clone();
                hc.ops[i] = c;
                attempts += 1;
                if fails(&hc) {
                    h = hc;
                    changed = true;
                    break;
                }
            }
        }
    }
    // knobs
    let simple = crate::seq::Knobs {
        price: h.knobs.price,
        zero: h.knobs.zero,
        ..Default::default()
    };
    let mut tries: Vec<crate::seq::Knobs> = vec![simple.clone()];
    let mut k = h.knobs.clone();
    k.clock = ClockCfg::default();
    tries.push(k.clone());
    let mut k = h.knobs.clone();
    k.hash_seed = 1;
    k.shards = 4;
    tries.push(k);
    let mut k = h.knobs.clone();
    k.offprice = false;
    k.namespace = simple.namespace;
    tries.push(k);
    for k in tries {
        if k != h.knobs {
            let mut hc = h.clone();
            hc.knobs = k;
            attempts += 1;
            if fails(&hc) {
                h = hc;
            }
        }
    }
    (h, attempts)
}

impl Check for SCheck {
    fn prop(&self) -> &'static str {
        self.prop
    }
    fn engine(&self) -> &'static str {
        "S"
    }
    fn runs(&self, tier: Tier) -> u64 {
        match tier {
            Tier::Quick => self.quick,
            Tier::Thorough => self.thorough,
        }
    }
    fn run_seed(&self, seed: u64) -> RunOut {
        let h = gen_history(seed, &self.profile);
        self.out_of(&h, Some(seed))
    }
    fn case_of_seed(&self, seed: u64) -> Value {
        let h = gen_history(seed, &self.profile);
        json!({"history": h, "seed_for_incremental_result": seed})
    }
    fn run_case(&self, case: &Value) -> Result<RunOut, String> {
        if let (Some(o), Some(q)) = (case.get("grid_order"), case.get("incoming")) {
            // a case of the enumerated single-order workload (C05)
            let o: OrderSpec = serde_json::from_value(o.clone()).map_err(|e| e.to_string())?;
            let q = q.as_u64().ok_or("bad incoming")?;
            let hooks = SeqHooks::new(ClockCfg::default(), 1, 4);
            let _i = Installed::new(hooks);
            let mut out = RunOut::default();
            if let Some(d) = check_match_against(&o.to_lib(), q) {
                out.violations.push(Violation {
                    prop: "C05".into(),
                    sig: "C05/match-against".into(),
                    at: 0,
                    detail: d,
                });
            }
            return Ok(out);
        }
        let h: History =
            serde_json::from_value(case["history"].clone()).map_err(|e| e.to_string())?;
        let seed = case["seed_for_incremental_result"].as_u64();
        Ok(self.out_of(&h, seed))
    }
    fn minimise(&self, case: &Value, sig: &str) -> (Value, MinStats) {
        let h: History = match serde_json::from_value(case["history"].clone()) {
            Ok(h) => h,
            Err(_) => {
                return (
                    case.clone(),
                    MinStats {
                        attempts: 0,
                        from_size: 0,
                        to_size: 0,
                    },
                );
            }
        };
        let seed = case["seed_for_incremental_result"].as_u64();
        if sig == "C02/incremental-result" {
            return (
                case.clone(),
                MinStats {
                    attempts: 0,
                    from_size: h.ops.len(),
                    to_size: h.ops.len(),
                },
            );
        }
        let fails = |c: &History| self.out_of(c, None).violations.iter().any(|v| v.sig == sig);
        let from = h.ops.len();
        let (m, attempts) = minimise_history(&h, &fails);
        let to = m.ops.len();
        (
            json!({"history": m, "seed_for_incremental_result": seed}),
            MinStats {
                attempts,
                from_size: from,
                to_size: to,
            },
        )
    }
    fn rule(&self) -> String {
        format!("{} | history generator: ordinary runs hold <= 12 resting orders and <= 40 operations; about 1 run in 32 is a big book (17-260 orders pre-loaded), 1 in 32 a long history (150-1000 operations on 2-5 orders, half of them with a row of 33-1030 orders added and cancelled at once, 1 in 800 of those a 66 000-pair marathon of add+cancel or add+match); ids are small integers, random bits or a corner pool (nil, all ones, equal low / high halves, the same bits as UUID and as ULID); the taker id is sometimes a resting maker's; level price from {{0, 1, 2, 3, 7, 100, 10^4, 2^32}}; in a third of the runs the caller keeps every handle it is given (the Arc from add_order, listings, snapshots) alive to the end; a run is cut short if more than 2000 orders rest at once (never on a correct tree)", self.rule)
    }
    fn assumptions(&self) -> Vec<String> {
        vec![
            "order ids are unique among the orders resting at the same time (adds of a resting id are skipped by the runner)".into(),
            "sums of quantities and price*quantity fit in 64 bits (generator keeps total supplied quantity below (2^63-1)/(price+8))".into(),
            "replenishment rounds per order stay small (iceberg hidden <= 60, reserve hidden/amount <= ~40) so that the step budget is meaningful".into(),
            "dashmap, crossbeam SegQueue, std atomics, serde_json, sha2, uuid, ulid are trusted".into(),
            "per-order reference rule is DESIGN.md A.3, written from the property text".into(),
        ]
    }
    fn once(&self, tier: Tier) -> Option<(u64, u64, Vec<(Value, Violation)>, String)> {
        if self.prop == "C05" {
            Some(c05_grid(tier))
        } else {
            None
        }
    }
}

/// C05: the enumerated single-order workload (grid of small values + 64-bit corners).
pub fn c05_grid(tier: Tier) -> (u64, u64, Vec<(Value, Violation)>, String) {
    let hooks = SeqHooks::new(ClockCfg::default(), 1, 4);
    let _i = Installed::new(hooks);
    let mut evals = 0u64;
    let mut nontrivial = 0u64;
    let mut viol: Vec<(Value, Violation)> = vec![];
    let dmax: u64 = if tier == Tier::Quick { 6 } else { 9 };
    let qmax: u64 = dmax + 2;
    let base = OrderSpec {
        kind: Kind::Standard,
        id: IdS { ulid: false, v: 7 },
        price: 100,
        vis: 0,
        hid: 0,
        buy: true,
        ts: 42,
        tif: Tif::Gtc,
        p1: 0,
        p2: 0,
        p2_some: false,
        off: 0,
        peg: 0,
        auto: false,
    };
    let mut one = |o: &OrderSpec, q: u64| {
        evals += 1;
        if q > 0 && o.vis > 0 {
            nontrivial += 1;
        }
        if let Some(d) = check_match_against(&o.to_lib(), q) {
            if viol.len() < 8 {
                viol.push((
                    json!({"grid_order": o, "incoming": q}),
                    Violation {
                        prop: "C05".into(),
                        sig: "C05/match-against".into(),
                        at: 0,
                        detail: d,
                    },
                ));
            }
        }
    };
    for kind in ALL_KINDS {
        match kind {
            Kind::Iceberg => {
                for d in 0..=dmax {
                    for h in 0..=dmax {
                        for q in 0..=qmax {
                            let mut o = base;
                            o.kind = kind;
                            o.vis = d;
                            o.hid = h;
                            one(&o, q);
                            o.tif = if (d + h + q) % 2 == 0 { Tif::Fok } else { Tif::Ioc };
                            o.buy = false;
                            one(&o, q);
                        }
                    }
                }
            }
            Kind::Reserve => {
                for d in 0..=dmax {
                    for h in 0..=dmax {
                        for thr in 0..=4u64 {
                            for amt in 0..=6u64 {
                                // amt 0..=4 -> Some(amt); 5 -> None; 6 -> Some(h+1)
                                for auto in [false, true] {
                                    for q in 0..=qmax {
                                        let mut o = base;
                                        o.kind = kind;
                                        o.vis = d;
                                        o.hid = h;
                                        o.p1 = thr;
                                        o.auto = auto;
                                        match amt {
                                            5 => o.p2_some = false,
                                            6 => {
                                                o.p2_some = true;
                                                o.p2 = h + 1
                                            }
                                            a => {
                                                o.p2_some = true;
                                                o.p2 = a
                                            }
                                        }
                                        one(&o, q);
                                    }
                                }
                            }
                        }
                    }
                }
            }
            _ => {
                for d in 0..=dmax {
                    for q in 0..=qmax {
                        // every time-in-force: it is an identity field and must not influence
                        // how a resting order is matched
                        for tif in [Tif::Ioc, Tif::Fok, Tif::Day, Tif::Gtd(5)] {
                            let mut o = base;
                            o.kind = kind;
                            o.vis = d;
                            o.tif = tif;
                            o.buy = d % 2 == 0;
                            one(&o, q);
                        }
                        let mut o = base;
                        o.kind = kind;
                        o.vis = d;
                        if kind == Kind::TrailingStop {
                            o.p1 = 5;
                            o.p2 = 99;
                        }
                        if kind == Kind::Pegged {
                            o.off = -3;
                            o.peg = 2;
                        }
                        one(&o, q);
                    }
                }
            }
        }
    }
    // 64-bit corners, displayed + hidden <= u64::MAX
    let c: [u64; 12] = [
        0,
        1,
        2,
        79,
        80,
        81,
        (1 << 32) - 1,
        (1 << 32) + 1,
        (1 << 53) + 1,
        1 << 63,
        u64::MAX - 1,
        u64::MAX,
    ];
    for kind in ALL_KINDS {
        for &d in &c {
            for &h in &c {
                if d.checked_add(h).is_none() {
                    continue;
                }
                let has_hidden = matches!(kind, Kind::Iceberg | Kind::Reserve);
                if !has_hidden && h != 0 {
                    continue;
                }
                for &q in &c {
                    let mut o = base;
                    o.kind = kind;
                    o.vis = d;
                    o.hid = h;
                    o.tif = Tif::Gtd(u64::MAX);
                    o.ts = u64::MAX;
                    if kind == Kind::Reserve {
                        for (thr, some, amt, auto) in [
                            (0u64, false, 0u64, true),
                            (1, true, 1, true),
                            (u64::MAX, true, u64::MAX, true),
                            (d, true, h, true),
                            (d.saturating_add(1), true, h / 2 + 1, true),
                            (5, true, 0, true),
                            (5, true, 7, false),
                        ] {
                            o.p1 = thr;
                            o.p2_some = some;
                            o.p2 = amt;
                            o.auto = auto;
                            // displayed + amount must fit (new display = d1 + amt <= d + h)
                            one(&o, q);
                        }
                    } else {
                        one(&o, q);
                    }
                }
            }
        }
    }
    let desc = format!(
        "single-order workload swept completely: all 7 types x displayed 0..{dmax} x hidden 0..{dmax} x threshold 0..4 x amount {{0..4, None, hidden+1}} x auto x incoming 0..{qmax}, plus 12 64-bit corner values per dimension with displayed+hidden <= u64::MAX; non-trivial = incoming > 0 and displayed > 0"
    );
    (evals, nontrivial, viol, desc)
}

pub fn make(prop: &str) -> Option<SCheck> {
    let d = Profile::default();
    Some(match prop {
        "C01" => SCheck {
            prop: "C01",
            profile: Profile {
                zero: true,
                ..d
            },
            nontrivial: |o| {
                o.ops_run >= 3
                    && (probe(o, "match_multi_tx") + probe(o, "partial_fill") + probe(o, "replenished") > 0)
                    && (probe(o, "remove_present") + probe(o, "amend_present") + probe(o, "restores") > 0)
            },
            twin: false,
            quick: 1_500_000,
            thorough: 30_000_000,
            rule: "seeded histories (engine S) of add/match/cancel/move/amend/replace/read/rebuild over all 7 order types; aggregates compared with sums over the level's own listing after EVERY operation; non-trivial = at least 3 ops with a trade (partial fill, replenishment or multi-maker match) AND a successful cancel/amend/rebuild; distinct = distinct digest of all responses and post-operation states",
        },
        "C02" => SCheck {
            prop: "C02",
            profile: Profile {
                offprice: true,
                zero: true,
                ..d
            },
            nontrivial: |o| probe(o, "match_multi_tx") > 0 || probe(o, "replenished") > 0,
            twin: false,
            quick: 1_500_000,
            thorough: 30_000_000,
            rule: "engine S histories incl. off-price orders; per-match arithmetic, transaction fields, transaction-id freshness, filled-id set, lifetime ledger traded<=supplied; plus one generated MatchResult::add_transaction sequence per run; non-trivial = a match with several transactions or a replenishment",
        },
        "C04" => SCheck {
            prop: "C04",
            profile: Profile {
                restores: true,
                priority_mix: true,
                corner: false,
                zero: true,
                zero_pct: 35,
                ..d
            },
            nontrivial: |o| {
                probe(o, "partial_fill_with_others") > 0
                    || probe(o, "readd_of_cancelled_id") > 0
                    || (probe(o, "amend_present") > 0 && probe(o, "match_multi_tx") > 0)
            },
            twin: false,
            quick: 1_500_000,
            thorough: 30_000_000,
            rule: "engine S histories rich in partial fills, cancel-then-re-add of the same id, same-price amends and replenishment, with occasional rebuilds of the level from its own snapshot (arrival order restarts from the listed order when that is unambiguous), each ending in a draining match; priority-stamp monitor over every transaction; non-trivial = a partial fill with other orders resting, a re-add of a cancelled id, or an amend followed by a multi-maker match",
        },
        "C05" => SCheck {
            prop: "C05",
            profile: Profile {
                probes: true,
                restores: false,
                zero: true,
                zero_pct: 40,
                ..d
            },
            nontrivial: |o| probe(o, "probe_calls") > 0 || probe(o, "replenished") > 0,
            twin: false,
            quick: 1_500_000,
            thorough: 30_000_000,
            rule: "the documented rule (DESIGN A.3) is the oracle of every maker visit of every match in engine S histories (states after fills, replenishments, amends) and of read-only match_against probes on every resting order; non-trivial = a run with probes or replenishment",
        },
        "C06" => SCheck {
            prop: "C06",
            profile: Profile {
                zero: true,
                restores: false,
                ..d
            },
            nontrivial: |o| {
                probe(o, "zero_display_added")
                    + probe(o, "amended_to_zero_display")
                    + probe(o, "zero_display_resting_after_match")
                    > 0
            },
            twin: false,
            quick: 1_500_000,
            thorough: 30_000_000,
            rule: "engine S histories with zero quantities enabled (display 0 at add, amend to 0, replenish amount 0); every match runs under a step budget of 64 x (model visit bound + resting orders + 8) + 8 x (tickets issued so far) instrumented operations; non-trivial = the history put a zero-display order on the book",
        },
        "C07" => SCheck {
            prop: "C07",
            profile: Profile {
                update_mix: true,
                zero: true,
                zero_pct: 40,
                // orders whose own price field differs from the level's: "a price different
                // from the level's" is about the level, whatever the order carries
                offprice: true,
                ..d
            },
            nontrivial: |o| {
                probe(o, "remove_present") + probe(o, "amend_present") > 0
                    && (probe(o, "partial_fill") + probe(o, "replenished") > 0)
            },
            twin: true,
            quick: 1_500_000,
            thorough: 30_000_000,
            rule: "engine S histories mixing all five update kinds on present/absent ids, equal/other prices, all types, orders whose own price field differs from the level's, after fills and replenishments; before/after relations on listing and return value; twin run (same history with read-only calls removed) must give identical responses and final state; blind twin (the same mutating calls with no read-only call and no monitor observation in between, up to the first rebuild) must give identical responses and final state; non-trivial = a successful cancel/move/amend in a history that also had a partial fill or replenishment",
        },
        "C10" => SCheck {
            prop: "C10",
            profile: Profile {
                ts_stress: true,
                zero: true,
                ..d
            },
            nontrivial: |o| probe(o, "restores") > 0 && o.ops_run >= 3,
            twin: false,
            quick: 1_500_000,
            thorough: 30_000_000,
            rule: "engine S histories in which the live level is rebuilt through each of 7 paths (from_snapshot, From<&Snapshot>, package, package JSON, serde JSON, text, PriceLevelData) with aggregate fields of the intermediate form corrupted in half of the rebuilds; content, derived aggregates and listing shape checked, history continues on the rebuilt level; non-trivial = at least one rebuild in a history of >= 3 ops",
        },
        "C15S" => SCheck {
            prop: "C15",
            profile: Profile { ..d },
            nontrivial: |o| probe(o, "match_multi_tx") + probe(o, "remove_present") > 0,
            twin: false,
            quick: 1_500_000,
            thorough: 30_000_000,
            rule: "",
        },
        _ => return None,
    })
}
