#!/bin/bash
# Build the simulator (plsim) against /repo's working tree with the hooks enabled. Offline.
set -u
cd "$(dirname "$0")/sim" || exit 2
export CARGO_NET_OFFLINE=true
cargo build --release --offline 2>&1 | tail -3
test -x target/release/plsim || { echo "setup: build failed" >&2; exit 2; }
echo "setup: ok"
