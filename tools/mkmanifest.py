#!/usr/bin/env python3
"""Regenerate /verif/MANIFEST.json from the table below (kept next to the checks so that it stays in step)."""
import json, subprocess, os
here = os.path.dirname(os.path.dirname(os.path.abspath(__file__)))

def hook_commits():
    try:
        out = subprocess.check_output(["git", "-C", "/repo", "log", "--format=%H %s"], text=True)
        return [l.split()[0] for l in out.splitlines() if " verif hooks:" in " " + l]
    except Exception:
        return []

# id -> (engine, level, technique, text, note, design_ref)
CHECKS = {
 "C01": ("S", "exploration", "deterministic simulation: seeded sequential histories with crash/restart (rebuild) and lying-aggregate faults; invariant after every op",
         "Seeded search over histories of all operations and order types with the level rebuilt from its durable forms at arbitrary points; aggregates are compared with the sums over the level's own listing after every single operation, so any missing, doubled or mis-signed counter update on any path shows as soon as it happens. Sampling, not proof.",
         "Trusted: dashmap, crossbeam, std atomics, serde_json. Preconditions (unique resting ids, sums fit 64 bits) enforced by the generator.", "DESIGN.md §5, §8 C01"),
 "C02": ("S", "exploration", "deterministic simulation: seeded sequential histories; per-match monitor + lifetime ledger over the recorded history",
         "Every match of every generated history is checked for arithmetic, transaction fields, id freshness and the filled-id set, and a per-order ledger (traded <= supplied, adjusted by amends) is kept across the whole history and across rebuilds.",
         "As C01. Transaction-id uniqueness is per generator instance.", "DESIGN.md §8 C02"),
 "C03": ("T", "exploration", "deterministic simulation: controlled scheduler over real threads (scheduling point before every atomic/map/queue op), seeded schedule strategies, conservation oracle over the recorded history",
         "2-4 caller threads run under a one-at-a-time scheduler that decides every interleaving at the granularity the property states; at quiescence aggregates are compared with the listing and a per-order conservation equation is evaluated from all threads' responses and the step trace. Schedules are sampled (uniform, sticky, PCT, stall, op-boundary), failures replay from the recorded schedule list.",
         "Sequential consistency; one DashMap/SegQueue call = one atomic step (their linearizability is trusted); threads are also descheduled inside map guards (the simulator tracks held shard locks and makes conflicting requests wait), an iteration counts as holding all shards; explored executions are a subset of the real SC executions.", "DESIGN.md §4.1, §6, §8 C03"),
 "C04": ("S", "exploration", "deterministic simulation: seeded sequential histories; priority-stamp monitor over every transaction of every match",
         "Histories rich in partial fills, cancel-then-re-add, same-price amends and replenishment, with occasional rebuilds from the level's own snapshot, big books (up to 260 orders), long histories (up to 1000 operations, rows of up to 1030 dead tickets) and a head-lane stress mode; each transaction is checked against the arrival stamps the property prescribes (keep on partial fill / amend, back on replenish / add), and in histories with zero-display orders every match is compared with a complete specification model of the match.",
         "An order keeps its arrival stamp however often it is passed over while displaying 0. After a rebuild the monitor restarts from the listed order when that is unambiguous (strictly increasing timestamps), otherwise it stays silent until the book is empty.", "DESIGN.md §8 C04"),
 "C05": ("S", "exploration", "deterministic simulation: independent executable rule as per-visit oracle inside simulated histories, plus a completely enumerated single-order workload",
         "The documented per-order rule, written independently from the property text, is evaluated at every maker visit of every match and on read-only probes of reached states; the small-value grid and the 64-bit corner pool are swept completely on every run.",
         "Thin fit for this technique (pure function): the simulator contributes reached states and replayability, not schedules. Rule = DESIGN.md A.3.", "DESIGN.md §8 C05, A.3"),
 "C06": ("S", "exploration", "deterministic simulation: bounded liveness by step budget on instrumented operations",
         "Every match in histories with zero quantities runs under a step budget derived from a model bound on maker visits; a non-returning call becomes a deterministic BudgetExceeded after microseconds instead of a hang, and the post-conditions on remaining/displayed quantity are checked on return.",
         "Budget = 64 x (visit bound + resting orders + 8) + 8 x (tickets issued so far, for the dead tickets a match steps over) instrumented operations, hard-capped; every loop iteration of match_order and OrderQueue::pop performs at least one instrumented operation.", "DESIGN.md §4.3, §8 C06"),
 "C07": ("S", "exploration", "deterministic simulation: before/after frame relations per update + twin run with read-only calls removed + blind twin (no read-only call or monitor observation between the mutating calls)",
         "All five update kinds on present/absent ids at equal/other prices in states after fills and replenishments; the returned order, the frame (only that order changes) and the ledger are checked, and purity of reads is decided by running the same history with and without them.",
         "As C01.", "DESIGN.md §8 C07"),
 "C08": ("T", "exploration", "deterministic simulation: controlled scheduler; concurrent phase followed by a draining match under a step budget; bare-queue programs with an exactly-once hand-out ledger",
         "After any sampled interleaving a huge match from the driver must reach every listed order (nothing with displayed quantity remains, aggregates describe what is left, every order listed at quiescence is accounted for); a third of the runs exercise OrderQueue alone with concurrent push/pop/remove/find and check that every pushed order is handed out exactly once.",
         "As C03.", "DESIGN.md §8 C08"),
 "C09": ("W", "fault_enumeration", "deterministic simulation of the storage seam: complete enumeration of single-position faults (torn write, byte substitution/deletion/insertion/duplication, digit flip) and structural edits per generated package, sampled fault pairs",
         "For each generated package text the whole single-fault space is enumerated at every offset and restored through both entry points; a restore must fail or yield exactly the snapshotted content, every proper prefix must fail, and every edit that alters content (a number, the order sequence or count, a side, time-in-force or order type, a digit of the price, of an aggregate or of the checksum) must be rejected; one run in forty carries a 4-15 kB package; packages are also tampered at object level. The evidence counts rejections per stage (syntax/strict deserializer, version gate, checksum) so that a run which never reached the checksum is visible.",
         "SHA-256 collisions not expected; an attacker recomputing the checksum is out of scope.", "DESIGN.md §7, §8 C09"),
 "C10": ("S", "exploration", "deterministic simulation: crash/restart through seven rebuild paths with lying-aggregate faults, history continues on the rebuilt level",
         "The live level is rebuilt at arbitrary history points through every external form, with the aggregate fields of the intermediate form corrupted in half of the rebuilds; content equality, derived aggregates and listing shape are checked and later operations run on the rebuilt object.",
         "As C01. Hash seed and shard count are varied per run, so listing order among equal timestamps is explored reproducibly.", "DESIGN.md §8 C10"),
 "C11": ("S", "exploration", "deterministic simulation: crash/restart fork — original, restored and rebuilt-from-listing levels driven in lock-step by the same continuation",
         "At a random quiescent point of a seeded history the level is snapshotted and restored; the continuation is applied to original, restored level and a level built from the snapshot's listing. Tier 1 (restored == rebuilt-from-listing) is a hard oracle; tier 2 (restored == original) is the property; a tier-2 difference explained by listing order != queue order is the listed finding, anything else is a violation.",
         "Known finding C11/listing-order is open (format-level). Queue order of the original comes from the C04 stamp monitor.", "DESIGN.md §8 C11, §9"),
 "C12": ("T", "exploration", "deterministic simulation: controlled scheduler with a stop-the-world observer before every shared-memory step",
         "The scheduler stops the world before every instrumented step of every thread and reads the three aggregates; each must lie between 0 and the total supplied by the operations invoked so far. Transient wrapped values that live for nanoseconds on real hardware are therefore observed deterministically. Reader operations inside the programs are held to the same bound.",
         "As C03. The bound has a margin of ~2^63 against false alarms.", "DESIGN.md §4.1, §8 C12"),
 "C13": ("T", "exploration", "deterministic simulation: controlled scheduler; truthfulness decided over the recorded history (book intervals from map steps with outcomes), holder attribution classifies",
         "Cancels / amends racing matches on the same order; each not-found is judged against the order's book interval reconstructed from the step trace, each reported success against later appearances of the order. The holder at the failing lookup distinguishes the listed in-flight-match window from any other cause.",
         "Known finding C13/not-found-inflight-match is open (inherent to pop-compute-push). As C03.", "DESIGN.md §8 C13, §9"),
 "C14": ("T", "exploration", "deterministic simulation: controlled scheduler on the id generator; set equality with a sequential reference run of the same code",
         "2-6 threads x up to 50 calls on one generator under sampled schedules; the ids must be duplicate-free and equal to the first N ids of a fresh sequential generator with the same namespace; the generator is then restarted from its durable (JSON) form and must not re-issue an id, also across restarts at counters around 2^8, 2^16, 2^32, 2^48.",
         "As C03; uuid crate trusted.", "DESIGN.md §8 C14"),
 "C15": ("S+T", "exploration", "deterministic simulation: sequential histories (checked after every op) and concurrent programs (checked at quiescence and after the drain) against event counts from the recorded history",
         "The four figures are compared with counts derived from the responses of the recorded history, as deltas since construction of the level object, in both engines.",
         "Positive quantities; value figure only when all orders are at the level's price.", "DESIGN.md §8 C15"),
 "C16": ("W", "exploration", "deterministic simulation of the wire seam, fault-free channel: every value of simulated runs plus a boundary pool round-trips through the text codec",
         "Values produced by simulated histories (orders after fills, multi-transaction results, statistics, levels, snapshots) and a boundary pool per type are printed and parsed back with the library and compared in harness-side form.",
         "Thin fit: no schedule or fault in the property; claimed because the value population and replayability come from the simulator.", "DESIGN.md §8 C16"),
 "C17": ("W", "exploration", "deterministic simulation of the wire seam, fault-free channel, JSON codec",
         "As C16 with serde JSON; packages must still validate after the trip and carry derived aggregates.",
         "Thin fit, as C16.", "DESIGN.md §8 C17"),
 "C18": ("W", "fault_enumeration", "deterministic simulation of the wire seam, faulty channel: complete enumeration of char-level single faults per valid encoding into every parser, cross-type feeding, adversarial corpus; panics captured, loops bounded by the step budget",
         "For each selected valid encoding every deletion, insertion, substitution (incl. multi-byte), digit flip, swap, duplication and truncation at every position is fed to the matching entry points, every valid encoding to all 31 entry points, and a fixed corpus to all of them; a panic or budget overrun is the violation.",
         "Inputs are valid UTF-8 (&str entry points). Loops in un-instrumented parsers are only caught by the process watchdog.", "DESIGN.md §8 C18"),
 "C19": ("S", "exploration", "deterministic simulation: seeded sequential operation sequences on the bare queue against a FIFO-with-removal list model",
         "push / pop / find / remove / len / is_empty / to_vec and rebuilds (from_vec, From<Vec>, text, JSON) checked operation by operation against a list model, including re-push of ids after removal, long programs with rows of up to 1030 dead tickets, and UUID / ULID ids with equal bits, with hasher seed and shard count varied.",
         "Pushes of a currently queued id are skipped (precondition).", "DESIGN.md §8 C19"),
}

# Properties not claimed under this technique (deterministic simulation with fault injection): pure
# functions of their input.  Their auxiliary checks stay in the tree (./check C05|C16|C17 quick) as the
# fault-free control configuration, but are not registered.
NOT_APPLICABLE = {
 "C05": "pure function of (order, incoming quantity): no schedule, clock, fault, crash point or history in the property, so there is nothing for a simulator to decide; the rule is used as the reference model inside the simulated histories of C01 C02 C04 C06 C08, and an unregistered auxiliary check (./check C05) sweeps its input grid",
 "C16": "pure function of the value (print then parse): no schedule, clock, fault or interleaving; generating values and comparing is input generation, not simulation; kept only as the unregistered fault-free control configuration of the wire seam used by C09 and C18 (./check C16)",
 "C17": "as C16 for the JSON codec: a pure function of the value, nothing to simulate; unregistered fault-free control (./check C17)",
}
for _p in NOT_APPLICABLE:
    CHECKS.pop(_p, None)

ALL = ["C%02d" % i for i in range(1, 20)]

def main():
    checks = []
    for pid in ALL:
        if pid not in CHECKS: continue
        eng, level, tech, text, note, ref = CHECKS[pid]
        checks.append({
            "property_id": pid,
            "quick_cmd": f"./check {pid} quick",
            "thorough_cmd": f"./check {pid} thorough",
            "evidence_file": f"/verif/evidence/{pid}.json",
            "replay_cmd_template": "./check replay {path}",
            "engine": eng,
            "level_claimed": {"category": level, "text": text, "design_ref": ref},
            "level_note": note,
            "technique": tech,
        })
    na = [{"property_id": p, "reason": NOT_APPLICABLE[p]} for p in ALL if p in NOT_APPLICABLE]
    assert all(p in CHECKS or p in NOT_APPLICABLE for p in ALL)
    m = {
        "version": 1,
        "setup_cmd": "./setup.sh",
        "hooks": {
            "guard": "cargo feature `verif` of the pricelevel crate",
            "enable": "plsim depends on pricelevel = { path = \"/repo\", features = [\"verif\"] }; ./check rebuilds it from /repo's working tree",
            "baseline_off_cmd": "cd /repo && cargo test --workspace --no-fail-fast --offline",
            "source_commits": hook_commits(),
            "add_only": True,
        },
        "engines": [
            {"name": "S", "path": "sim/src/seq.rs", "serves_properties": [p for p in ALL if p in CHECKS and "S" in CHECKS[p][0]], "kind_free_text": "sequential histories with crash/restart, step budget, simulated clock, seeded hasher"},
            {"name": "T", "path": "sim/src/conc.rs, sim/src/sched.rs", "serves_properties": [p for p in ALL if p in CHECKS and "T" in CHECKS[p][0]], "kind_free_text": "concurrent programs on real threads under a one-at-a-time scheduler with stop-the-world observers; seeded strategies, recorded schedule = replay"},
            {"name": "W", "path": "sim/src/wire.rs", "serves_properties": [p for p in ALL if p in CHECKS and CHECKS[p][0] == "W"], "kind_free_text": "simulated wire/storage between encode and decode: fault-free channel and enumerated byte/char/structural faults"},
        ],
        "checks": checks,
        "not_applicable": na,
        "notes": "One binary (sim/, plsim). VERIF_SEED selects the base seed (default fixed), VERIF_RUNS overrides the run count, VERIF_WORKERS the worker count. Exit 0 held / 1 violation / 2 harness error.",
    }
    json.dump(m, open(os.path.join(here, "MANIFEST.json"), "w"), indent=1)
    print("wrote MANIFEST.json with", len(checks), "checks;", len(na), "not claimed")

if __name__ == "__main__":
    main()
