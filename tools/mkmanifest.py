#!/usr/bin/env python3
"""Regenerate /verif/MANIFEST.json from the table below (kept next to the checks so that it stays in step)."""
import json, subprocess, os
here = os.path.dirname(os.path.dirname(os.path.abspath(__file__)))

def hook_commits():
    try:
        out = subprocess.check_output(["git", "-C", "/repo", "log", "--format=%H %s"], text=True)
        return [l.split()[0] for l in out.splitlines() if " verif hooks:" in " " + l]
    except Exception:
        return []

# id -> (engine, level, technique, text, note, design_ref)
CHECKS = {
 "C01": ("S", "exploration", "deterministic simulation: seeded sequential histories with crash/restart (rebuild) and lying-aggregate faults; invariant after every op",
         "Seeded search over histories of all operations and order types with the level rebuilt from its durable forms at arbitrary points; aggregates are compared with the sums over the level's own listing after every single operation, so any missing, doubled or mis-signed counter update on any path shows as soon as it happens. Sampling, not proof.",
         "Trusted: dashmap, crossbeam, std atomics, serde_json. Preconditions (unique resting ids, sums fit 64 bits) enforced by the generator.", "DESIGN.md §5, §8 C01"),
 "C02": ("S", "exploration", "deterministic simulation: seeded sequential histories; per-match monitor + lifetime ledger over the recorded history",
         "Every match of every generated history is checked for arithmetic, transaction fields, id freshness and the filled-id set, and a per-order ledger (traded <= supplied, adjusted by amends) is kept across the whole history and across rebuilds.",
         "As C01. Transaction-id uniqueness is per generator instance.", "DESIGN.md §8 C02"),
 "C05": ("S", "exploration", "deterministic simulation: independent executable rule as per-visit oracle inside simulated histories, plus a completely enumerated single-order workload",
         "The documented per-order rule, written independently from the property text, is evaluated at every maker visit of every match and on read-only probes of reached states; the small-value grid and the 64-bit corner pool are swept completely on every run.",
         "Thin fit for this technique (pure function): the simulator contributes reached states and replayability, not schedules. Rule = DESIGN.md A.3.", "DESIGN.md §8 C05, A.3"),
 "C06": ("S", "exploration", "deterministic simulation: bounded liveness by step budget on instrumented operations",
         "Every match in histories with zero quantities runs under a step budget derived from a model bound on maker visits; a non-returning call becomes a deterministic BudgetExceeded after microseconds instead of a hang, and the post-conditions on remaining/displayed quantity are checked on return.",
         "Budget = 64 x (visit bound + resting orders + 8) instrumented operations; every loop iteration of match_order and OrderQueue::pop performs at least one instrumented operation.", "DESIGN.md §4.3, §8 C06"),
 "C07": ("S", "exploration", "deterministic simulation: before/after frame relations per update + twin run with read-only calls removed",
         "All five update kinds on present/absent ids at equal/other prices in states after fills and replenishments; the returned order, the frame (only that order changes) and the ledger are checked, and purity of reads is decided by running the same history with and without them.",
         "As C01.", "DESIGN.md §8 C07"),
 "C10": ("S", "exploration", "deterministic simulation: crash/restart through seven rebuild paths with lying-aggregate faults, history continues on the rebuilt level",
         "The live level is rebuilt at arbitrary history points through every external form, with the aggregate fields of the intermediate form corrupted in half of the rebuilds; content equality, derived aggregates and listing shape are checked and later operations run on the rebuilt object.",
         "As C01. Hash seed and shard count are varied per run, so listing order among equal timestamps is explored reproducibly.", "DESIGN.md §8 C10"),
}

PENDING = {}  # filled below: everything not in CHECKS yet

ALL = ["C%02d" % i for i in range(1, 20)]

def main():
    checks = []
    for pid in ALL:
        if pid not in CHECKS: continue
        eng, level, tech, text, note, ref = CHECKS[pid]
        checks.append({
            "property_id": pid,
            "quick_cmd": f"./check {pid} quick",
            "thorough_cmd": f"./check {pid} thorough",
            "evidence_file": f"/verif/evidence/{pid}.json",
            "replay_cmd_template": "./check replay {path}",
            "engine": eng,
            "level_claimed": {"category": level, "text": text, "design_ref": ref},
            "level_note": note,
            "technique": tech,
        })
    na = [{"property_id": p, "reason": "check under construction in this session; not claimed until it runs clean on the unchanged tree"} for p in ALL if p not in CHECKS]
    m = {
        "version": 1,
        "setup_cmd": "./setup.sh",
        "hooks": {
            "guard": "cargo feature `verif` of the pricelevel crate",
            "enable": "plsim depends on pricelevel = { path = \"/repo\", features = [\"verif\"] }; ./check rebuilds it from /repo's working tree",
            "baseline_off_cmd": "cd /repo && cargo test --workspace --no-fail-fast --offline",
            "source_commits": hook_commits(),
            "add_only": True,
        },
        "engines": [
            {"name": "S", "path": "sim/src/seq.rs", "serves_properties": [p for p in ALL if p in CHECKS and CHECKS[p][0] == "S"], "kind_free_text": "sequential histories with crash/restart, step budget, simulated clock, seeded hasher"},
        ],
        "checks": checks,
        "not_applicable": na,
        "notes": "One binary (sim/, plsim). VERIF_SEED selects the base seed (default fixed), VERIF_RUNS overrides the run count, VERIF_WORKERS the worker count. Exit 0 held / 1 violation / 2 harness error.",
    }
    json.dump(m, open(os.path.join(here, "MANIFEST.json"), "w"), indent=1)
    print("wrote MANIFEST.json with", len(checks), "checks;", len(na), "not claimed")

if __name__ == "__main__":
    main()
