#!/bin/bash
# tools/benign_eval.sh : false-alarm control. Applies each /verif/mutants/benign-*/patch.diff (a refactor that
# breaks no property) in a scratch worktree, requires the repository's test suite to pass, and requires EVERY
# check's quick command to exit 0 with no VIOLATION line.
set -u
L=/tmp/mut/benign
mkdir -p /tmp/mut
if [ ! -d "$L/repo" ]; then git -C /repo worktree add -q --detach "$L/repo" HEAD || exit 2; fi
git -C "$L/repo" checkout -q --detach "$(git -C /repo rev-parse HEAD)"; git -C "$L/repo" checkout -q -- .
mkdir -p "$L/verif"
rsync -a --delete --exclude target --exclude out --exclude evidence --exclude .git /verif/ "$L/verif/"
sed -i "s#path = \"/repo\"#path = \"$L/repo\"#" "$L/verif/sim/Cargo.toml"
bad=0
for d in /verif/mutants/benign-*; do
  cd "$L/repo" && git checkout -q -- . && git apply "$d/patch.diff" || { echo "BENIGN $(basename $d): does not apply"; bad=1; continue; }
  suite=$(cargo test --workspace --no-fail-fast --offline 2>&1 | grep -E "^test result" | awk '{p+=$4; f+=$6} END {print p" passed "f" failed"}')
  alarms=""
  cd "$L/verif"
  for i in $(seq -w 1 19); do
    o=$(./check C$i quick 2>&1); c=$?
    if [ $c -ne 0 ] || echo "$o" | grep -q "^VIOLATION"; then alarms="$alarms C$i($c)"; echo "$o" | grep -E "^VIOLATION|harness" | head -2 | cut -c1-300; fi
  done
  echo "BENIGN $(basename $d): suite=[$suite] alarms=[${alarms}]"
  [ -n "$alarms" ] && bad=1
done
cd "$L/repo" && git checkout -q -- .
exit $bad
