#!/bin/bash
# tools/sensitivity.sh [seeded-id...]
# Sensitivity self-test: for every kept property-breaking change under /verif/seeded (or the given ones)
# build the harness against a scratch worktree of /repo with the patch applied (outside /repo and
# /verif), run the check(s) recorded in meta.json ("caught_by"), and require exit 1; then require exit 0
# for the same checks on the unpatched scratch worktree. Scratch copies are removed at the end.
set -u
ids=("$@"); [ ${#ids[@]} -eq 0 ] && ids=($(ls /verif/seeded))
S=$(mktemp -d /tmp/plsim-sens.XXXXXX)
trap 'git -C /repo worktree remove --force "$S/repo" 2>/dev/null; rm -rf "$S"' EXIT
git -C /repo worktree add -q --detach "$S/repo" HEAD || exit 2
mkdir -p "$S/verif"; rsync -a --exclude target --exclude out --exclude evidence --exclude .git /verif/ "$S/verif/"
sed -i "s#path = \"/repo\"#path = \"$S/repo\"#" "$S/verif/sim/Cargo.toml"
fail=0
for id in "${ids[@]}"; do
  meta=/verif/seeded/$id/meta.json
  checks=$(python3 -c "import json;m=json.load(open('$meta'));print(' '.join(m['caught_by'][:2]))")
  git -C "$S/repo" checkout -q -- .
  git -C "$S/repo" apply /verif/seeded/$id/patch.diff || { echo "SENS $id: patch does not apply"; fail=1; continue; }
  for c in $checks; do
    (cd "$S/verif" && ./check $c quick >/dev/null 2>&1); code=$?
    if [ $code -eq 1 ]; then echo "SENS $id: $c exit 1 (caught)"; else echo "SENS $id: $c exit $code (MISSED)"; fail=1; fi
  done
done
git -C "$S/repo" checkout -q -- .
for c in $(python3 - <<PY
import json,glob
s=set()
for f in glob.glob('/verif/seeded/*/meta.json'):
    s.update(json.load(open(f))['caught_by'][:2])
print(' '.join(sorted(s)))
PY
); do (cd "$S/verif" && ./check $c quick >/dev/null 2>&1); code=$?; echo "SENS unpatched: $c exit $code"; [ $code -ne 0 ] && fail=1; done
exit $fail
