#!/bin/bash
# tools/confirm_mutant.sh <dir containing patch.diff and demo.rs>
# Confirms in a scratch worktree (outside /repo and /verif) that the change compiles, passes the
# repository's test suite, and that the demonstration fails with it and passes without it.
set -u
d="$(cd "$1" && pwd)"
wt=/tmp/mut/confirm
if [ ! -d "$wt" ]; then git -C /repo worktree add -q --detach "$wt" HEAD || exit 2; fi
cd "$wt" || exit 2
git checkout -q --detach "$(git -C /repo rev-parse HEAD)" 2>/dev/null
git checkout -q -- . ; rm -f tests/mutant_demo.rs
git apply "$d/patch.diff" || { echo "CONFIRM patch does not apply"; exit 1; }
suite=$(cargo test --workspace --no-fail-fast --offline 2>&1 | grep -E "^test result" | awk '{p+=$4; f+=$6} END {print p" passed "f" failed"}')
cp "$d/demo.rs" tests/mutant_demo.rs
cargo test --offline --test mutant_demo >/tmp/mut/confirm_with.log 2>&1; with=$?
git checkout -q -- src
cargo test --offline --test mutant_demo >/tmp/mut/confirm_without.log 2>&1; without=$?
rm -f tests/mutant_demo.rs; git checkout -q -- .
echo "CONFIRM suite_with_change=[$suite] demo_with_change_exit=$with demo_without_change_exit=$without"
if [ "$with" -ne 0 ] && [ "$without" -eq 0 ] && echo "$suite" | grep -q "^365 passed 0 failed"; then echo "CONFIRM ok"; exit 0; else echo "CONFIRM NOT-OK"; exit 1; fi
