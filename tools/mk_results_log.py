#!/usr/bin/env python3
"""Rewrite DESIGN.md §15.8 (results log) from /verif/seeded/*/meta.json, /verif/mutants/own-*/NOTE.txt
and the files tools/*.txt produced by the final runs."""
import json, glob, os, re
rows=[]
for f in sorted(glob.glob('/verif/seeded/*/meta.json')):
    m=json.load(open(f))
    rows.append((m['id'], m['breaks_property'], m['summary'].replace('|','/')[:150], 'yes' if m['target_check_exit']==1 else 'no', ' '.join(m['caught_by']) or '-'))
own=[]
for d in sorted(glob.glob('/verif/mutants/own-*')):
    note=open(d+'/NOTE.txt').read().strip().splitlines()
    own.append((os.path.basename(d), note[0][:170], note[-1] if len(note)>1 else ''))
out=[]
out.append("### 15.8 Results log\n")
for name in ['determinism_result.txt','seed_sweep_result.txt','benign_result.txt','thorough_result.txt']:
    p='/verif/tools/'+name
    if os.path.exists(p):
        out.append(open(p).read().rstrip()+"\n")
out.append("**Independently written property-breaking changes** (`/verif/seeded/<id>/`: `patch.diff`, `demo.rs`, `meta.json`).  Each was written by a fresh sub-agent that saw only the property text and a scratch worktree; each compiles, passes the 361 + 4 tests, and its demonstration fails with the change and passes without (confirmed in scratch worktrees by `tools/lane_eval.sh`).  \"target\" = caught by the check of the property the sub-agent was given; \"caught by\" = every check that exits 1 on it (the other checks were run with reduced run counts).\n")
out.append("| id | property | change | target | caught by |\n|---|---|---|---|---|")
for r in rows: out.append("| %s | %s | %s | %s | %s |" % r)
n=len(rows); t=sum(1 for r in rows if r[3]=='yes'); a=sum(1 for r in rows if r[4]!='-')
na={'C05','C16','C17'}
claimed_any=sum(1 for r in rows if any(x not in na for x in r[4].split()))
only_aux=[r[0] for r in rows if r[4] != '-' and all(x in na for x in r[4].split())]
out.append(f"\n{n} changes kept; {t} caught by the check of the property they were written for, {a} caught by at least one check, {claimed_any} by at least one *registered* check.  The {len(only_aux)} caught only by the unregistered auxiliary checks of the not-applicable properties C05 C16 C17 were all written for those properties: {', '.join(only_aux)}.\n")
if own:
    out.append("**Own catalogue** (`/verif/mutants/own-*`, hand-written from appendix A.5; only those that pass the existing suite are kept):\n")
    out.append("| id | property: change | result |\n|---|---|---|")
    for o in own: out.append("| %s | %s | %s |" % o)
s=open('/verif/DESIGN.md').read()
a=s.index('### 15.8 Results log'); b=s.index('---------------------------------------------------------------------------\n\n## A. Appendix')
s=s[:a]+"\n".join(out)+"\n\n"+s[b:]
open('/verif/DESIGN.md','w').write(s)
print('rows',n,'target',t,'any',a)
