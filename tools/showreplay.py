#!/usr/bin/env python3
"""Print a replay file's history / program compactly."""
import json,sys
for f in sys.argv[1:]:
    b=json.load(open(f)); print(f, b.get('signature'))
    c=b['case']
    h=c.get('history') or c
    if 'ops' in h:
        print('  knobs', {k:v for k,v in h['knobs'].items() if k not in('clock','namespace','hash_seed')})
        for op in h['ops']:
            if isinstance(op,str): print('   ',op); continue
            k=list(op.keys())[0]; v=op[k]
            if k=='Add': print('    add',v['kind'],v['id'][-4:],f"{v['vis']}+{v.get('hid',0)}",'ts',v['ts'], {x:v[x] for x in ('p1','p2','p2_some','auto') if v['kind']=='Reserve'})
            elif k=='Upd': print('    upd',v['kind'],v['id'][-4:],'qty',v.get('qty'),'price',v.get('price'))
            else: print('   ',k,v)
    else:
        print(json.dumps(c)[:2000])
    print('  expect:', b['expect']['detail'][:400])
