#!/bin/bash
# all thorough commands, one after the other, with wall time and peak memory
for p in C01 C02 C03 C04 C05 C06 C07 C08 C09 C10 C11 C12 C13 C14 C15 C16 C17 C18 C19; do
  /usr/bin/time -f "$p wall %es maxrss %MkB" ./check $p thorough 2>&1 | grep -E "held|VIOLATION|KNOWN|harness|wall|exit"
  echo "$p exit=${PIPESTATUS[0]}"
done
echo THOROUGH-DONE
