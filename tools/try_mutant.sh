#!/bin/bash
# tools/try_mutant.sh <patch.diff> <target property> [other properties...]
# Applies the patch to /repo, runs the checks, and always reverts /repo afterwards.
set -u
patch="$(readlink -f "$1")"; shift
target="$1"; shift
cd /verif || exit 2
if [ -n "$(git -C /repo status --porcelain -- src Cargo.toml)" ]; then echo "TRY /repo not clean" >&2; exit 2; fi
git -C /repo apply "$patch" || { echo "TRY patch does not apply"; exit 2; }
trap 'git -C /repo checkout -- . ' EXIT
out=$(./check "$target" quick 2>&1); code=$?
echo "TRY target=$target exit=$code $(echo "$out" | grep -E '^VIOLATION' | head -2 | cut -c1-260)"
echo "$out" | grep -E "harness error" | head -3
for p in "$@"; do
  case "$p" in C09) runs=40;; C18) runs=150;; C16|C17) runs=20000;; *) runs=${VERIF_RUNS_OTHER:-150000};; esac
  o=$(VERIF_RUNS=$runs ./check "$p" quick 2>&1); c=$?
  if [ $c -ne 0 ]; then echo "TRY also=$p exit=$c $(echo "$o" | grep -E '^VIOLATION|harness error' | head -1 | cut -c1-200)"; fi
done
