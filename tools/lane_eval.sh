#!/bin/bash
# tools/lane_eval.sh <lane-number> <mutant-dir>...   (bulk triage of candidate changes in scratch copies)
# Each lane has its own worktree of /repo and its own copy of /verif whose plsim builds against that
# worktree, so /repo itself stays untouched. Results: /tmp/mut/results/<prop>-<n>.log
set -u
lane="$1"; shift
L=/tmp/mut/lane$lane
RES=${RESULTS:-/tmp/mut/results}; mkdir -p $RES
if [ ! -d "$L/repo" ]; then git -C /repo worktree add -q --detach "$L/repo" HEAD || exit 2; fi
git -C "$L/repo" checkout -q --detach "$(git -C /repo rev-parse HEAD)"; git -C "$L/repo" checkout -q -- .
mkdir -p "$L/verif"
rsync -a --delete --exclude target --exclude out --exclude evidence --exclude .git /verif/ "$L/verif/"
sed -i "s#path = \"/repo\"#path = \"$L/repo\"#" "$L/verif/sim/Cargo.toml"
ALL="C01 C02 C03 C04 C05 C06 C07 C08 C09 C10 C11 C12 C13 C14 C15 C16 C17 C18 C19"
for d in "$@"; do
  prop=$(basename "$(dirname "$d")" | sed 's/-out.*//'); n=$(basename "$d")
  # area-based rounds (X<k>-out): the property is named on the first line of the README
  case "$prop" in X*|Y*|Z*|W*|V*|U*|T*|S*) prop=$(head -1 "$d/README.md" | grep -o 'C[0-9][0-9]' | head -1); [ -z "$prop" ] && prop=C01;; esac
  log=$RES/$(basename "$(dirname "$d")")-$n.log
  {
    echo "== $prop/$n"
    cd "$L/repo" && git checkout -q -- . && rm -f tests/mutant_demo.rs
    if ! git apply "$d/patch.diff"; then echo "CONFIRM patch does not apply"; continue; fi
    suite=$(cargo test --workspace --no-fail-fast --offline 2>&1 | grep -E "^test result" | awk '{p+=$4; f+=$6} END {print p" passed "f" failed"}')
    cp "$d/demo.rs" tests/mutant_demo.rs
    timeout 600 cargo test --offline --test mutant_demo >"$L/with.log" 2>&1; with=$?
    rm -f tests/mutant_demo.rs
    echo "CONFIRM suite_with_change=[$suite] demo_with_change_exit=$with"
    cd "$L/verif"
    out=$(./check "$prop" quick 2>&1); code=$?
    echo "TRY target=$prop exit=$code $(echo "$out" | grep -E '^VIOLATION' | head -3 | cut -c1-300)"
    echo "$out" | grep -E "harness error|^error" | head -5
    for p in $ALL; do
      [ "$p" = "$prop" ] && continue
      case "$p" in C09) runs=40;; C18) runs=150;; C16|C17) runs=20000;; *) runs=150000;; esac
      o=$(VERIF_RUNS=$runs ./check "$p" quick 2>&1); c=$?
      if [ $c -ne 0 ]; then echo "TRY also=$p exit=$c $(echo "$o" | grep -E '^VIOLATION|harness error' | head -1 | cut -c1-220)"; fi
    done
    # demo without the change
    cd "$L/repo" && git checkout -q -- . && cp "$d/demo.rs" tests/mutant_demo.rs
    timeout 600 cargo test --offline --test mutant_demo >"$L/without.log" 2>&1; without=$?
    rm -f tests/mutant_demo.rs
    echo "CONFIRM demo_without_change_exit=$without"
    echo "DONE"
  } >"$log" 2>&1
done
