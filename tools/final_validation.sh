#!/bin/bash
# last validation of the final harness on the unchanged tree: three more base seeds for every quick
# command, then the thorough commands of the checks touched by the last additions
for s in 83 89 97; do
  for p in C01 C02 C03 C04 C05 C06 C07 C08 C09 C10 C11 C12 C13 C14 C15 C16 C17 C18 C19; do
    o=$(VERIF_SEED=$s ./check $p quick 2>&1); c=$?
    echo "seed=$s $p exit=$c $(echo "$o" | grep -E 'held|VIOLATION|harness error' | head -2 | cut -c1-200)"
  done
done
echo SWEEP-DONE
for p in C07 C02 C03 C12; do
  /usr/bin/time -f "$p wall %es maxrss %MkB" ./check $p thorough 2>&1 | grep -E "held|VIOLATION|KNOWN|harness|wall"
  echo "$p thorough exit=${PIPESTATUS[0]}"
done
echo THOROUGH-DONE
