#!/bin/bash
# seed sweep of all quick checks in the snapshot
for s in 53 59 61 67 71; do
  for p in C01 C02 C03 C04 C05 C06 C07 C08 C09 C10 C11 C12 C13 C14 C15 C16 C17 C18 C19; do
    o=$(VERIF_SEED=$s ./check $p quick 2>&1); c=$?
    echo "seed=$s $p exit=$c $(echo "$o" | grep -E 'held|VIOLATION|harness error' | head -2 | cut -c1-200)"
  done
done
echo SWEEP-DONE
