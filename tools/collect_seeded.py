#!/usr/bin/env python3
"""Collect confirmed property-breaking changes into /verif/seeded/<id>/ from the sub-agents' output
directories and the triage logs (tools/lane_eval.sh)."""
import json, os, re, shutil, sys, glob
res_dir = sys.argv[1] if len(sys.argv) > 1 else '/tmp/mut/results'
rounds = [('/tmp/mut/%s-out', 'r1'), ('/tmp/mut/%s-out2', 'r2')]
kept = []
for log in sorted(glob.glob(res_dir + '/*.log')):
    txt = open(log).read()
    if 'DONE' not in txt: continue
    m = re.match(r'== (C\d+)/(\S+)', txt)
    if not m: continue
    prop, n = m.group(1), m.group(2)
    tag = os.path.basename(log)[:-4]            # e.g. C01-out-1 / C01-out2-1
    mm = re.match(r'([CXYZWVUTS]\d+)-(out[23]?)-(\d+)$', tag)
    if not mm: continue
    rnd = {'out': 'r1', 'out2': 'r2', 'out3': 'r3'}[mm.group(2)]
    if mm.group(1).startswith('X'):
        rnd = 'r4' + mm.group(1).lower()
    if mm.group(1).startswith('Y'):
        rnd = 'r5' + mm.group(1).lower()
    if mm.group(1).startswith('Z'):
        rnd = 'r6' + mm.group(1).lower()
    if mm.group(1).startswith('W'):
        rnd = 'r7' + mm.group(1).lower()
    if mm.group(1).startswith('V'):
        rnd = 'r8' + mm.group(1).lower()
    if mm.group(1).startswith('U'):
        rnd = 'r9' + mm.group(1).lower()
    if mm.group(1).startswith('T'):
        rnd = 'r10' + mm.group(1).lower()
    if mm.group(1).startswith('S'):
        rnd = 'r11' + mm.group(1).lower()
    src = '/tmp/mut/%s-%s/%s' % (mm.group(1), mm.group(2), mm.group(3))
    if not os.path.exists(src + '/patch.diff'): continue
    suite = re.search(r'suite_with_change=\[(.*?)\]', txt)
    withc = re.search(r'demo_with_change_exit=(\d+)', txt)
    without = re.search(r'demo_without_change_exit=(\d+)', txt)
    target = re.search(r'TRY target=(C\d+) exit=(\d+)(.*)', txt)
    also = re.findall(r'TRY also=(C\d+) exit=(\d+)', txt)
    ok = suite and suite.group(1).startswith('365 passed 0 failed') and withc and withc.group(1) != '0' and without and without.group(1) == '0'
    if not ok:
        print('NOT KEPT', tag, suite and suite.group(1), withc and withc.group(1), without and without.group(1)); continue
    ident = f'{prop}-{rnd}-{mm.group(3)}'
    dst = f'/verif/seeded/{ident}'
    os.makedirs(dst, exist_ok=True)
    shutil.copy(src + '/patch.diff', dst + '/patch.diff')
    shutil.copy(src + '/demo.rs', dst + '/demo.rs')
    ported = os.path.exists(src + '/patch.orig.diff')
    if ported: shutil.copy(src + '/patch.orig.diff', dst + '/patch.as-written.diff')
    readme = open(src + '/README.md').read() if os.path.exists(src + '/README.md') else ''
    first = next((l.strip('# ').strip() for l in readme.splitlines() if l.strip()), '')
    needs = ''
    mm = re.search(r'(?is)(what (?:exactly )?is needed[^\n]*\n+|needs?[^\n]*to manifest[^\n]*\n+|## *what it needs[^\n]*\n+)(.*?)(\n#|\n\n\n|\Z)', readme)
    if mm: needs = ' '.join(mm.group(2).split())[:600]
    caught = []
    if target and target.group(2) == '1': caught.append(target.group(1))
    caught += [p for p, c in also if c == '1']
    sigs = re.findall(r'signature=(\S+)', txt)
    meta = {
        'id': ident,
        'breaks_property': prop,
        'written_by': 'independent sub-agent given only the property text and a scratch worktree (round %s)' % re.match(r'r(\d+)', rnd).group(1),
        'summary': first[:400],
        'ported': ('patch.diff was ported by hand to the tree after fix d5ee576 (the statements it edits were rewritten by that fix); patch.as-written.diff is the sub-agent\'s original against 4763285' if ported else None),
        'needs_to_manifest': needs,
        'confirmed_in_scratch_worktree': {
            'test_suite_with_change': suite.group(1),
            'demo_with_change_exit': int(withc.group(1)),
            'demo_without_change_exit': int(without.group(1)),
            'commands': ['git apply patch.diff', 'cargo test --workspace --no-fail-fast --offline', 'cp demo.rs tests/mutant_demo.rs && cargo test --offline --test mutant_demo', 'git checkout -- src && cargo test --offline --test mutant_demo'],
        },
        'checks_run': 'tools/lane_eval.sh: ./check <target> quick, then every other check with a reduced run count, built against a scratch worktree with the patch applied',
        'target_check_exit': int(target.group(2)) if target else None,
        'caught_by': sorted(set(caught)),
        'signatures_seen': sorted(set(sigs))[:8],
    }
    json.dump(meta, open(dst + '/meta.json', 'w'), indent=1)
    kept.append((ident, meta['caught_by'], meta['target_check_exit']))
for k in kept: print(k)
print(len(kept), 'kept')
